package main

// SplitMix64: the only source of randomness in the simulator. Every choice a
// scenario contains is drawn from an RNG derived from (VERIF_SEED, property,
// scenario index) while the scenario is being *generated*; execution of a
// scenario never draws.

type RNG struct{ s uint64 }

func NewRNG(seed uint64) *RNG { return &RNG{s: seed} }

func (r *RNG) Next() uint64 {
	r.s += 0x9E3779B97F4A7C15
	z := r.s
	z = (z ^ (z >> 30)) * 0xBF58476D1CE4E5B9
	z = (z ^ (z >> 27)) * 0x94D049BB133111EB
	return z ^ (z >> 31)
}

// Intn returns a value in [0,n). n<=0 returns 0.
func (r *RNG) Intn(n int) int {
	if n <= 0 {
		return 0
	}
	return int(r.Next() % uint64(n))
}

// Range returns a value in [lo,hi].
func (r *RNG) Range(lo, hi int) int {
	if hi <= lo {
		return lo
	}
	return lo + r.Intn(hi-lo+1)
}

// Chance is true with probability num/den.
func (r *RNG) Chance(num, den int) bool { return r.Intn(den) < num }

func (r *RNG) Pick(xs []string) string { return xs[r.Intn(len(xs))] }

// Fork derives an independent stream.
func (r *RNG) Fork() *RNG { return NewRNG(r.Next() ^ 0xD6E8FEB86659FD93) }

func mix(h uint64, v uint64) uint64 {
	h ^= v + 0x9E3779B97F4A7C15 + (h << 6) + (h >> 2)
	h *= 0xBF58476D1CE4E5B9
	return h ^ (h >> 29)
}

// DeriveSeed gives scenario i of property prop its own seed.
func DeriveSeed(base uint64, prop string, i int) uint64 {
	h := mix(0x243F6A8885A308D3, base)
	for _, c := range []byte(prop) {
		h = mix(h, uint64(c))
	}
	h = mix(h, uint64(i))
	return NewRNG(h).Next()
}
