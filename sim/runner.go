package main

import (
	"encoding/json"
	"fmt"
	"os"
	"os/exec"
	"path/filepath"
	"runtime"
	"sort"
	"strconv"
	"strings"
	"time"
)

// verifRoot is the directory the check runs in: $VERIF_ROOT (exported by
// ./check: the directory of the script, so that a snapshot of /verif run by
// `vp run` writes into the snapshot), else /verif.
var verifRoot = func() string {
	if r := os.Getenv("VERIF_ROOT"); r != "" {
		return r
	}
	return "/verif"
}()

// outRoot is where a run writes (work files, replays, evidence). It is
// /verif, except when the check was pointed at a scratch copy of the
// repository (VERIF_TAG set by ./check together with VERIF_REPO): then
// everything goes under /verif/work/<tag>/ so that mutation testing never
// overwrites the evidence of the real tree.
func outRoot() string {
	if t := os.Getenv("VERIF_TAG"); t != "" {
		return filepath.Join(verifRoot, "work", t)
	}
	return verifRoot
}

func seedFromEnv() uint64 {
	if s := os.Getenv("VERIF_SEED"); s != "" {
		if v, err := strconv.ParseInt(s, 10, 64); err == nil {
			return uint64(v)
		}
		if v, err := strconv.ParseUint(s, 10, 64); err == nil {
			return v
		}
	}
	return 1
}

// ShardResult is what one worker process reports.
type ShardResult struct {
	Property   string         `json:"property"`
	Shard      int            `json:"shard"`
	Of         int            `json:"of"`
	Scenarios  int            `json:"scenarios"`
	Evals      int            `json:"evals"`
	Counters   map[string]int `json:"counters"`
	Distinct   []string       `json:"distinct"`
	Samples    []interface{}  `json:"samples"`
	Violations []*Violation   `json:"violations"`
	Infra      []string       `json:"infra"`
	HookCalls  int            `json:"hook_calls"`
	Opcodes    map[string]int `json:"opcodes"`
	WallS      float64        `json:"wall_s"`
}

// workerMain runs shard `shard` of `of` and writes its result to out.
func workerMain(args []string) int {
	if len(args) < 6 {
		usage()
	}
	prop, tier := args[0], args[1]
	seed, _ := strconv.ParseUint(args[2], 10, 64)
	shard, _ := strconv.Atoi(args[3])
	of, _ := strconv.Atoi(args[4])
	out := args[5]
	e, ok := engines[prop]
	if !ok {
		fmt.Fprintln(os.Stderr, "unknown property", prop)
		return 2
	}
	t0 := time.Now()
	trace := os.Getenv("VERIF_TRACE") != ""
	ctx := NewRunCtx()
	res := &ShardResult{Property: prop, Shard: shard, Of: of}
	n := e.Count(tier)
	knownSeen := map[string]bool{}
	maxViol := 8
	switch prop {
	case "C07", "C09", "C04":
		maxViol = 3
	}
	if fp, ok := e.(FreshProcesser); ok && fp.FreshProcess("") {
		maxViol = 1 // every shrink candidate costs a process
	}
	for i := shard; i < n; i += of {
		sc := e.Gen(DeriveSeed(seed, prop, i), i, tier)
		res.Scenarios++
		if trace {
			fmt.Fprintf(os.Stderr, "[trace] shard %d scenario %d t=%.1fs\n", shard, i, time.Since(t0).Seconds())
		}
		var f *Finding
		var im string
		if cs, ok := e.(ColdStarter); ok && cs.ColdStart(sc) {
			f, im = runFresh(e, sc, ctx)
		} else {
			f, im = runGuarded(e, sc, ctx)
		}
		if im != "" {
			res.Infra = append(res.Infra, fmt.Sprintf("scenario %d: %s", i, im))
			if len(res.Infra) > 5 {
				break
			}
			continue
		}
		if f == nil {
			continue
		}
		if c04Hung {
			// a call never returned: a goroutine is still stuck inside the library and
			// process-global state may be poisoned; report this violation and stop
			res.Violations = append(res.Violations, &Violation{Property: prop, Engine: e.Name(), Class: f.Class, Detail: f.Detail,
				Seed: seed, Index: i, Scenario: mustJSON(sc), Log: append([]string{}, ctx.Log...), LogDigest: ctx.LogDigest()})
			break
		}
		if isKnownClass(prop, f.Class) {
			// a recorded finding: one witness per worker is enough, and it is not minimised again
			if !knownSeen[f.Class] {
				knownSeen[f.Class] = true
				res.Violations = append(res.Violations, &Violation{Property: prop, Engine: e.Name(), Class: f.Class, Detail: f.Detail,
					Seed: seed, Index: i, Scenario: mustJSON(sc), Log: append([]string{}, ctx.Log...), LogDigest: ctx.LogDigest()})
			}
			ctx.Count("known_finding_occurrences", 1)
			continue
		}
		if len(res.Violations) >= maxViol+len(knownSeen) {
			ctx.Count("violations_beyond_cap", 1)
			continue
		}
		orig := mustJSON(sc)
		budget := 4000
		switch prop {
		case "C07", "C09", "C04": // one candidate = a whole history / every seam: keep minimisation bounded
			budget = 500
		}
		if fp, ok := e.(FreshProcesser); ok && fp.FreshProcess(f.Class) {
			budget = 60
		}
		small, runs := shrink(e, sc, f.Class, budget)
		// Re-run the minimised scenario to get its own log and detail.
		rctx := NewRunCtx()
		rctx.Quiet = true
		f2, im2 := evalCandidate(e, small, f.Class, rctx)
		if im2 != "" || f2 == nil || f2.Class != f.Class {
			// Shrinking must never lose the violation; fall back to the original.
			small = sc
			f2, _ = evalCandidate(e, small, f.Class, rctx)
			if f2 == nil || f2.Class != f.Class {
				// A violation that depends on what this process has not yet done (a
				// process-wide cache being cold) cannot be shown twice in one process:
				// show it once more in a fresh process, which is also how a replay runs.
				f2, im2 = runFresh(e, small, rctx)
				if im2 == "" && f2 != nil {
					ctx.Count("violations_confirmed_in_fresh_process", 1)
				}
			}
			if f2 == nil {
				// Still a violation observed once, with its full event log; keep it, marked.
				f2 = &Finding{Class: f.Class, Detail: f.Detail + "\n(note: observed once in the worker process; it did not show again in this process or in a fresh one - the violation depends on the history of the process)"}
				rctx.Log = append(rctx.Log[:0], ctx.Log...)
			}
		}
		res.Violations = append(res.Violations, &Violation{
			Property: prop, Engine: e.Name(), Class: f2.Class, Detail: f2.Detail,
			Seed: seed, Index: i, Scenario: mustJSON(small), Original: orig,
			Log: append([]string{}, rctx.Log...), LogDigest: rctx.LogDigest(), ShrinkRun: runs,
		})
	}
	res.Evals = ctx.Evals
	res.Counters = ctx.Counters
	for k := range ctx.Distinct {
		res.Distinct = append(res.Distinct, k)
	}
	sort.Strings(res.Distinct)
	res.Samples = ctx.Samples
	res.HookCalls = hookCalls
	res.Opcodes = map[string]int{}
	for op, c := range opcodeSeen {
		if c > 0 {
			res.Opcodes[fmt.Sprintf("0x%02x", op)] = c
		}
	}
	res.WallS = time.Since(t0).Seconds()
	removeRaceLog()
	b, _ := json.Marshal(res)
	if err := os.WriteFile(out, b, 0o644); err != nil {
		fmt.Fprintln(os.Stderr, "cannot write", out, err)
		return 2
	}
	return 0
}

// KnownFinding is one entry of /verif/known_findings.json.
type KnownFinding struct {
	Property string          `json:"property"`
	Status   string          `json:"status"` // "known" or "fixed"
	Class    string          `json:"class"`
	Commit   string          `json:"commit,omitempty"`
	Summary  string          `json:"summary"`
	Witness  json.RawMessage `json:"witness,omitempty"`
}

func loadKnown() []KnownFinding {
	var doc struct {
		Findings []KnownFinding `json:"findings"`
	}
	b, err := os.ReadFile(filepath.Join(verifRoot, "known_findings.json"))
	if err != nil {
		return nil
	}
	if err := json.Unmarshal(b, &doc); err != nil {
		fmt.Fprintln(os.Stderr, "known_findings.json is not valid JSON:", err)
		os.Exit(2)
	}
	return doc.Findings
}

func isKnownClass(prop, class string) bool {
	for _, k := range loadKnown() {
		if k.Status == "known" && k.Property == prop && k.Class == class {
			return true
		}
	}
	return false
}

func tierTimeout(tier string) time.Duration {
	if tier == "thorough" {
		return 3 * time.Hour
	}
	return 20 * time.Minute
}

// checkMain is the driver: spawn workers, merge, shrink is done by workers,
// match known findings, write evidence, exit 0/1/2.
func checkMain(args []string) int {
	if len(args) < 2 {
		usage()
	}
	prop, tier := args[0], args[1]
	if tier != "quick" && tier != "thorough" {
		usage()
	}
	e, ok := engines[prop]
	if !ok {
		fmt.Fprintf(os.Stderr, "no engine for property %s (claimed: %v)\n", prop, engineList())
		return 2
	}
	seed := seedFromEnv()
	fmt.Printf("verifsim: property=%s engine=%s tier=%s VERIF_SEED=%d\n", prop, e.Name(), tier, seed)
	t0 := time.Now()
	workers := runtime.NumCPU()
	if workers > 16 {
		workers = 16
	}
	if w := os.Getenv("VERIF_WORKERS"); w != "" {
		if v, err := strconv.Atoi(w); err == nil && v > 0 {
			workers = v
		}
	}
	work := filepath.Join(outRoot(), "work")
	os.MkdirAll(work, 0o755)
	os.MkdirAll(filepath.Join(outRoot(), "replays"), 0o755)
	os.MkdirAll(filepath.Join(outRoot(), "evidence"), 0o755)
	self, _ := os.Executable()
	type proc struct {
		cmd *exec.Cmd
		out string
	}
	var procs []proc
	for s := 0; s < workers; s++ {
		out := filepath.Join(work, fmt.Sprintf("%s.%s.%d.json", prop, tier, s))
		os.Remove(out)
		cmd := exec.Command(self, "worker", prop, tier, strconv.FormatUint(seed, 10), strconv.Itoa(s), strconv.Itoa(workers), out)
		cmd.Stdout = os.Stderr
		cmd.Stderr = os.Stderr
		cmd.Env = append(os.Environ(), workerEnv(prop, tier, s)...)
		if err := cmd.Start(); err != nil {
			fmt.Fprintln(os.Stderr, "cannot start worker:", err)
			return 2
		}
		procs = append(procs, proc{cmd, out})
	}
	deadline := time.AfterFunc(tierTimeout(tier), func() {
		fmt.Fprintln(os.Stderr, "watchdog: batch exceeded its time limit; killing workers")
		for _, p := range procs {
			p.cmd.Process.Kill()
		}
	})
	failed := false
	for _, p := range procs {
		if err := p.cmd.Wait(); err != nil {
			fmt.Fprintln(os.Stderr, "worker failed:", err)
			failed = true
		}
	}
	deadline.Stop()
	if failed {
		fmt.Println("INFRASTRUCTURE ERROR: a worker process failed; no verdict")
		return 2
	}
	merged := NewRunCtx()
	merged.MaxSamp = 4
	var viols []*Violation
	var infraMsgs []string
	scenarios, hooks := 0, 0
	opcodes := map[string]int{}
	for _, p := range procs {
		b, err := os.ReadFile(p.out)
		if err != nil {
			fmt.Println("INFRASTRUCTURE ERROR: missing worker result", p.out)
			return 2
		}
		var r ShardResult
		if err := json.Unmarshal(b, &r); err != nil {
			fmt.Println("INFRASTRUCTURE ERROR: bad worker result", p.out, err)
			return 2
		}
		scenarios += r.Scenarios
		merged.Evals += r.Evals
		hooks += r.HookCalls
		for k, v := range r.Counters {
			merged.Counters[k] += v
		}
		for k, v := range r.Opcodes {
			opcodes[k] += v
		}
		for _, d := range r.Distinct {
			merged.Distinct[d] = struct{}{}
		}
		for _, s := range r.Samples {
			if len(merged.Samples) < merged.MaxSamp {
				merged.Samples = append(merged.Samples, s)
			}
		}
		viols = append(viols, r.Violations...)
		infraMsgs = append(infraMsgs, r.Infra...)
		os.Remove(p.out)
	}
	if pb, ok := e.(PostBatcher); ok {
		viols = append(viols, pb.PostBatch(tier, seed, merged)...)
	}
	sort.SliceStable(viols, func(i, j int) bool { return viols[i].Index < viols[j].Index })
	merged.Counters["hook_calls"] = hooks
	merged.Counters["scenarios"] = scenarios

	exit := 0
	known := loadKnown()
	reportedKnown := map[string]bool{}
	seenClass := map[string]int{}
	unknown := 0
	for _, v := range viols {
		matched := false
		for _, k := range known {
			if k.Status == "known" && k.Property == v.Property && k.Class == v.Class {
				matched = true
				if !reportedKnown[k.Class] {
					reportedKnown[k.Class] = true
					fmt.Printf("KNOWN-FINDING: property=%s class=%s %s\n", v.Property, k.Class, k.Summary)
				}
			}
		}
		if matched {
			merged.Counters["known_finding_hits"]++
			continue
		}
		unknown++
		seenClass[v.Class]++
		if seenClass[v.Class] > 3 {
			continue // enough witnesses of this class
		}
		path := filepath.Join(outRoot(), "replays", fmt.Sprintf("%s-%d-%d.json", v.Property, v.Seed, v.Index))
		b, _ := json.MarshalIndent(v, "", " ")
		os.WriteFile(path, b, 0o644)
		fmt.Printf("VIOLATION property=%s replay=%s\n", v.Property, path)
		fmt.Printf("  class=%s\n  %s\n", v.Class, strings.ReplaceAll(v.Detail, "\n", "\n  "))
	}
	switch {
	case unknown > 0:
		// A replayable violation stands whatever else went wrong in the batch.
		exit = 1
		for _, m := range infraMsgs {
			fmt.Println("note (infrastructure):", m)
		}
	default:
		for _, m := range infraMsgs {
			fmt.Println("INFRASTRUCTURE ERROR:", m)
			exit = 2
		}
		for _, req := range e.Required(tier) {
			if merged.Counters[req] == 0 {
				fmt.Printf("INFRASTRUCTURE ERROR: required counter %q is zero: the run did not reach what it claims to cover\n", req)
				exit = 2
			}
		}
	}
	wall := time.Since(t0).Seconds()
	writeEvidence(e, tier, seed, merged, opcodes, unknown, wall, workers, exit)
	fmt.Printf("verifsim: %s %s: scenarios=%d evaluations=%d distinct_nontrivial=%d violations=%d wall=%.1fs exit=%d\n",
		prop, tier, scenarios, merged.Evals, len(merged.Distinct), unknown, wall, exit)
	return exit
}

func workerEnv(prop, tier string, shard int) []string {
	if prop == "C08" || os.Getenv("VERIF_RACE") == "1" {
		return []string{fmt.Sprintf("GORACE=log_path=%s/work/race.%s.%s.%d halt_on_error=0 history_size=2 atexit_sleep_ms=0 exitcode=0", outRoot(), prop, tier, shard)}
	}
	return nil
}

func writeEvidence(e Engine, tier string, seed uint64, ctx *RunCtx, opcodes map[string]int, violations int, wall float64, workers int, exit int) {
	cov := map[string]interface{}{
		"evaluations":         ctx.Evals,
		"distinct_nontrivial": len(ctx.Distinct),
		"rule":                e.Rule(),
		"samples":             ctx.Samples,
		"counters":            ctx.Counters,
		"opcodes_executed":    opcodes,
		"engine":              e.Name(),
		"workers":             workers,
		"exit_code":           exit,
		"real_components":     "the whole expr library from /repo's working tree (parser, checker, optimizer, compiler, vm), built with -tags verif",
		"stub_components":     "environment functions/methods/data (simulated world), patch visitors, caller goroutine scheduling, memory budget value",
		"simulated_time":      fmt.Sprintf("%d logical steps (VM instructions seen by the hook; expr has no clock)", ctx.Counters["hook_calls"]),
	}
	if wall > 0 {
		cov["runs_per_hour"] = int(float64(ctx.Evals) / wall * 3600)
		cov["scenarios_per_hour"] = int(float64(ctx.Counters["scenarios"]) / wall * 3600)
	}
	// which fault kinds actually fired, and how often (a subset of the counters)
	faults := map[string]int{}
	for k, v := range ctx.Counters {
		for _, key := range []string{"fault", "crash", "poison", "site/", "budget_exceeded", "cold_process", "wrong_env", "huge_range", "descending"} {
			if strings.Contains(k, key) {
				faults[k] = v
				break
			}
		}
	}
	cov["faults_injected"] = faults
	cov["seed_rule"] = "scenario i uses H(VERIF_SEED, property, i); one seed = one exactly repeatable batch (./selftest.sh diffs event-log digests across processes and GOMAXPROCS values)"
	ev := map[string]interface{}{
		"property_id": e.Property(),
		"tier":        tier,
		"seed":        int64(seed),
		"level":       e.Level(),
		"coverage":    cov,
		"assumptions": e.Assumptions(),
		"wall_s":      wall,
		"violations":  violations,
	}
	b, _ := json.MarshalIndent(ev, "", " ")
	path := filepath.Join(outRoot(), "evidence", e.Property()+".json")
	if err := os.WriteFile(path, b, 0o644); err != nil {
		fmt.Fprintln(os.Stderr, "cannot write evidence:", err)
	}
}

// replayMain re-executes a replay file in this (fresh) process.
func replayMain(args []string) int {
	if len(args) < 1 {
		usage()
	}
	b, err := os.ReadFile(args[0])
	if err != nil {
		fmt.Fprintln(os.Stderr, err)
		return 2
	}
	var v Violation
	if err := json.Unmarshal(b, &v); err != nil {
		fmt.Fprintln(os.Stderr, "bad replay file:", err)
		return 2
	}
	e, ok := engines[v.Property]
	if !ok {
		fmt.Fprintln(os.Stderr, "no engine for", v.Property)
		return 2
	}
	sc, err := e.Decode(v.Scenario)
	if err != nil {
		fmt.Fprintln(os.Stderr, "bad scenario:", err)
		return 2
	}
	ctx := NewRunCtx()
	ctx.Quiet = true
	f, im := runGuarded(e, sc, ctx)
	if im != "" {
		fmt.Println("INFRASTRUCTURE ERROR:", im)
		return 2
	}
	for _, l := range ctx.Log {
		fmt.Println("  |", l)
	}
	if f == nil {
		fmt.Printf("NOT REPRODUCED: property=%s holds on this scenario now (recorded class %s)\n", v.Property, v.Class)
		return 0
	}
	same := f.Class == v.Class && ctx.LogDigest() == v.LogDigest
	fmt.Printf("VIOLATION property=%s replay=%s\n  class=%s\n  %s\n", v.Property, args[0], f.Class, strings.ReplaceAll(f.Detail, "\n", "\n  "))
	if same {
		fmt.Println("REPRODUCED EXACTLY: same class key and same event-log digest", v.LogDigest)
	} else {
		fmt.Printf("REPRODUCED WITH DIFFERENCES: class %s vs recorded %s; digest %s vs recorded %s\n", f.Class, v.Class, ctx.LogDigest(), v.LogDigest)
	}
	return 1
}
