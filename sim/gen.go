package main

// Typed generator for the mini-expr fragment. Everything it produces is
// accepted by the library's type checker against the simulated environment
// (that is checked by the harness: a rejected program is an infrastructure
// error, exit 2, not a finding).

type GenCfg struct {
	Budget       int  // node budget
	Calls        bool // external calls allowed
	Dyn          bool // dynamically typed values (Va results, the Any member) allowed
	Failing      bool // operations that may fail on data (division by Z, index K, nil member, run-time regexp)
	Strings      bool
	Closures     bool
	Maps         bool
	Objects      bool
	AnyUsable    bool // the Any member is non-nil (needed for map environments)
	ShortPred    bool // all/any/none/one (predicates never contain calls)
	ConstFns     bool // CI/CS/CB calls (for ConstExpr scenarios)
	AllocOnly    bool // restrict sequences to run-time allocating forms (C06)
	SliceCall    bool // allow calls in slice bounds (two-call slices expose the bound-order finding)
	NilSafe      bool
	NoInRange    bool // do not generate `x in <literal range>` (development aid)
	NarrowBounds bool // C06: run-time range bounds of narrow integer kinds (ranges of a few hundred elements)
	Pow          bool // numeric ** (a float) compared with an int
	Overload     bool // the ** operator is overloaded for two *Obj operands (OpA)
	MapRep       bool // the environment is a map[string]interface{}: lower-case members exist, Any has its value's static type
}

type gen struct {
	r       *RNG
	cfg     GenCfg
	left    int
	closure []string // element type of the enclosing closures: "int" | "obj"
	noCalls int      // >0 inside a short-circuiting predicate
}

var strPool = []string{"", "a", "ab", "é", "日本語", "x y", "k1", "k2", "zz", `q"t`, `b\s`, "ключ", "abcab", "e\u0301x"} // the last one: a base letter and a combining mark, two runes and two columns
var keyPool = []string{"k1", "k2", "k3", "ключ", "zz"}
var rePool = []string{"^a", "b+", "k[0-9]", ".*", "é$", "x.y"}
var intMembers = []string{"A", "B", "C", "D", "N", "M", "K"}

func NewGen(r *RNG, cfg GenCfg) *gen { return &gen{r: r, cfg: cfg, left: cfg.Budget} }

func (g *gen) take() bool {
	g.left--
	return g.left > 0
}

func (g *gen) callsOK() bool { return g.cfg.Calls && g.noCalls == 0 }

func (g *gen) lit() *N {
	if g.r.Chance(1, 12) {
		return nInt([]int{100, -100, 1000, 7, 13}[g.r.Intn(5)])
	}
	return nInt(g.r.Range(-8, 8))
}

func (g *gen) intLeaf() *N {
	if len(g.closure) > 0 && g.closure[len(g.closure)-1] == "int" && g.r.Chance(1, 2) {
		return nPtr()
	}
	if len(g.closure) > 0 && g.closure[len(g.closure)-1] == "obj" && g.r.Chance(1, 2) {
		return nProp(nPtr(), "V", false)
	}
	if g.r.Chance(1, 2) {
		return g.lit()
	}
	if g.cfg.MapRep && g.r.Chance(1, 8) {
		return nID("index")
	}
	return nID(g.r.Pick(intMembers))
}

// Int generates an int-valued expression.
func (g *gen) Int() *N {
	if !g.take() {
		return g.intLeaf()
	}
	for {
		switch g.r.Intn(20) {
		case 0, 1:
			return g.intLeaf()
		case 2, 3:
			op := g.r.Pick([]string{"+", "-", "*", "+", "-"})
			return nBin(op, g.Int(), g.Int())
		case 4:
			if !g.cfg.Failing {
				continue
			}
			// divisor is never a literal expression (the optimiser may reject
			// literal division by zero at compile time, which the properties allow)
			op := g.r.Pick([]string{"/", "%"})
			return nBin(op, g.Int(), g.nonLiteralInt())
		case 5, 6, 7:
			if !g.callsOK() {
				continue
			}
			return g.intCall()
		case 8:
			return nLen(g.lenArg())
		case 9:
			if !g.cfg.Failing {
				continue
			}
			return nIdx(g.Seq(), g.smallIndex())
		case 10:
			if !g.cfg.Maps {
				continue
			}
			// The key is always present in a literal (an absent key yields nil,
			// which is a dynamic value: see dynAtom). For the Mp member an absent
			// key yields the zero int.
			m := g.MapExpr()
			if m.K == "map" {
				if len(m.C) == 0 {
					m = nID("Mp")
				} else {
					return nIdx(m, nStr(m.C[g.r.Intn(len(m.C))].S))
				}
			}
			return nIdx(m, nStr(g.r.Pick(keyPool)))
		case 11:
			if !g.cfg.Closures {
				continue
			}
			return nBi("count", g.Seq(), g.closureBool("int"))
		case 12, 13:
			return nCond(g.Bool(), g.Int(), g.Int())
		case 14:
			return nUn(g.r.Pick([]string{"-", "-", "+"}), g.Int())
		case 15:
			if !g.cfg.Objects {
				continue
			}
			if g.cfg.Overload && g.r.Chance(1, 2) {
				r := nID("O")
				if g.cfg.Failing && g.r.Chance(1, 2) {
					r = nProp(nID("O"), "Next", false)
				}
				return nBin("**", nID("O"), r) // overloaded: OpA(O, r)
			}
			if g.cfg.Failing && g.r.Chance(1, 3) {
				return nProp(nProp(nID("O"), "Next", false), "V", false)
			}
			if g.r.Chance(1, 4) && !g.cfg.MapRep {
				// a member of the OTHER struct type that prints like Obj; arithmetic on it
				// is strict in its kind (the member is read through an interface{})
				return nBin("+", nProp(nID("Ob2"), "V", false), g.lit())
			}
			return nProp(nID("O"), "V", false)
		case 16:
			if !g.cfg.Dyn {
				continue
			}
			// A dynamic atom may evaluate to a non-int; it is only ever placed
			// under an operation that is strict in its operand's kind, so every
			// expression this function returns evaluates to an int or fails.
			a := g.dynAtom()
			if a == nil {
				continue
			}
			switch g.r.Intn(6) {
			case 5:
				if g.cfg.Maps && g.cfg.Failing && (a.K == "call" || !g.cfg.MapRep) {
					return nIdx(nID("Mp"), a) // a dynamic key: fails unless it holds a string
				}
				return nUn("-", a)
			case 0:
				return nBin(g.r.Pick([]string{"+", "-", "*"}), a, g.Int())
			case 1:
				return nBin(g.r.Pick([]string{"+", "-", "*"}), g.Int(), a)
			case 2:
				return nUn("-", a)
			case 3:
				if g.callsOK() {
					return nCall("F1", a)
				}
				return nUn("-", a)
			default:
				if g.cfg.Failing {
					return nIdx(nID("Xs"), a)
				}
				return nBin("+", a, g.lit())
			}
		case 17:
			if !g.cfg.Objects || !g.cfg.Closures {
				continue
			}
			g.closure = append(g.closure, "obj")
			body := g.Bool()
			g.closure = g.closure[:len(g.closure)-1]
			return nBi("count", nID("Objs"), body)
		case 18:
			if !g.cfg.ConstFns || !g.cfg.Calls {
				continue
			}
			if g.r.Chance(2, 3) {
				return nCall("CI", g.constInt(2))
			}
			return nCall("CI", g.Int())
		default:
			return g.intLeaf()
		}
	}
}

// constInt: an int expression the optimiser can reduce to a constant: literals,
// arithmetic on literals (never a literal zero divisor), nested constant calls.
func (g *gen) constInt(depth int) *N { return g.constIntX(depth, true) }

// constLit: as constInt but literal arithmetic only (usable where an integer
// literal is retyped to another integer type).
func (g *gen) constLit(depth int) *N { return g.constIntX(depth, false) }

func (g *gen) constIntX(depth int, calls bool) *N {
	g.left--
	if depth <= 0 {
		return g.lit()
	}
	k := g.r.Intn(7)
	if k == 4 && !calls {
		k = 0
	}
	switch k {
	case 0, 1:
		return g.lit()
	case 2:
		return nBin(g.r.Pick([]string{"+", "-", "*"}), g.constIntX(depth-1, calls), g.constIntX(depth-1, calls))
	case 3:
		return nUn("-", g.constIntX(depth-1, calls))
	case 4:
		return nCall("CI", g.constIntX(depth-1, calls))
	case 5:
		op := "/"
		if calls {
			op = g.r.Pick([]string{"/", "%"})
		}
		return nBin(op, g.constIntX(depth-1, calls), nInt(g.r.Range(1, 5)))
	default:
		return nInt(g.r.Range(0, 9))
	}
}

func (g *gen) nonLiteralInt() *N {
	switch g.r.Intn(4) {
	case 0:
		return nID("Z")
	case 1:
		if g.callsOK() {
			return g.intCall()
		}
		return nID("Z")
	case 2:
		return nBin("-", nID(g.r.Pick(intMembers)), g.lit())
	default:
		return nID(g.r.Pick(intMembers))
	}
}

func (g *gen) smallIndex() *N {
	switch g.r.Intn(4) {
	case 0:
		return nID("K")
	case 1:
		return nInt(g.r.Range(0, 3))
	case 2:
		if len(g.closure) > 0 && g.closure[len(g.closure)-1] == "int" {
			return nPtr()
		}
		return nInt(0)
	default:
		return nInt(0)
	}
}

// nilableArg: an argument for an interface{} parameter: the literal nil, an int
// expression, or a dynamic atom.
func (g *gen) nilableArg() *N {
	switch g.r.Intn(3) {
	case 0:
		return &N{K: "nil"}
	case 1:
		if g.cfg.Dyn {
			if a := g.dynAtom(); a != nil {
				return a
			}
		}
	}
	return g.Int()
}

func (g *gen) intCall() *N {
	for {
		switch g.r.Intn(11) {
		case 10:
			return nCall("Nest", g.intLeaf()) // the callee runs another program on another VM meanwhile
		case 8:
			return nCall("An", g.nilableArg(), g.nilableArg())
		case 9:
			if !g.cfg.Objects {
				continue
			}
			return nMeth(nID("O"), "Sel", g.cfg.NilSafe && g.r.Chance(1, 3), g.nilableArg(), g.nilableArg())
		case 0, 1:
			return nCall("F1", g.Int())
		case 2:
			return nCall("F2", g.Int(), g.Int())
		case 3:
			return nCall("G0")
		case 4:
			return nCall("Fn", g.Int())
		case 5:
			if !g.cfg.Objects {
				continue
			}
			var recv *N = nID("O")
			if g.cfg.Failing && g.r.Chance(1, 3) {
				// a receiver that is itself an operation (and may be nil at run time)
				recv = nProp(nID("O"), "Next", false)
			}
			if g.r.Chance(1, 4) {
				return nMeth(recv, "Twice", false, g.Int())
			}
			return nMeth(recv, "Get", false, g.Int())
		case 6:
			if !g.cfg.Objects || !g.cfg.NilSafe {
				continue
			}
			return nMeth(nID("O"), "Get", true, g.Int())
		default:
			return nCall("F1", g.intLeaf())
		}
	}
}

// dynAtom produces an expression whose static type is interface{} and whose
// value may be of any kind (nil and strings included). nil if none is allowed.
func (g *gen) dynAtom() *N {
	switch g.r.Intn(4) {
	case 0, 1:
		if g.callsOK() {
			return g.vaCall()
		}
	case 2:
		if g.cfg.Maps {
			return nIdx(nMap(nPair("k1", g.lit())), nStr(g.r.Pick([]string{"k1", "k2"})))
		}
	}
	if g.cfg.AnyUsable {
		return nID("Any")
	}
	if g.callsOK() {
		return g.vaCall()
	}
	return nil
}

func (g *gen) vaCall() *N {
	n := g.r.Intn(3)
	args := make([]*N, n)
	for i := range args {
		args[i] = g.Int()
	}
	return nCall("Va", args...)
}

// dynFor returns a dynamic atom usable under an operation that is strict in its
// operand's kind (nil if none is allowed here): in a map environment the Any
// member has its value's static type, so only call results are dynamic there.
func (g *gen) dynFor() *N {
	if !g.cfg.Dyn || !g.cfg.Failing {
		return nil
	}
	a := g.dynAtom()
	if a == nil || (a.K != "call" && g.cfg.MapRep) {
		return nil
	}
	return a
}

func (g *gen) lenArg() *N {
	if g.r.Chance(1, 10) {
		if a := g.dynFor(); a != nil {
			return a // len of a dynamic value: fails unless it holds a collection or a string
		}
	}
	switch g.r.Intn(4) {
	case 0:
		if g.cfg.Strings {
			return g.Str()
		}
	case 1:
		if g.cfg.Maps {
			return g.MapExpr()
		}
	}
	return g.Seq()
}

// Bool generates a bool-valued expression.
func (g *gen) Bool() *N {
	if !g.take() {
		return g.boolLeaf()
	}
	for {
		switch g.r.Intn(20) {
		case 0:
			return g.boolLeaf()
		case 1, 2, 3:
			if g.cfg.Pow && g.r.Chance(1, 6) {
				// exponentiation binds tighter than the other binary operators and
				// looser than a sign: (-A) ** 2, compared with an int (the power is a float)
				base := g.Int()
				if g.r.Chance(1, 2) {
					base = nUn(g.r.Pick([]string{"-", "+"}), g.intLeaf())
				}
				return nBin(g.r.Pick([]string{"<", "<=", ">", ">="}), nBin("**", base, nInt(g.r.Range(0, 3))), g.Int())
			}
			op := g.r.Pick([]string{"<", "<=", ">", ">=", "==", "!="})
			return nBin(op, g.Int(), g.Int())
		case 4, 5:
			op := g.r.Pick([]string{"and", "or", "&&", "||"})
			if g.cfg.Failing && g.r.Chance(1, 4) {
				// a left operand that can fail on data next to a literal right operand:
				// the connective must still evaluate (and fail in) the left operand
				var l *N
				switch g.r.Intn(4) {
				case 0:
					l = nBin(g.r.Pick([]string{">", "==", "<="}), nIdx(nID("Xs"), nID("K")), g.lit())
				case 1:
					l = nBin("==", nBin(g.r.Pick([]string{"%", "/"}), g.intLeaf(), nID("Z")), g.lit())
				case 2:
					if g.cfg.Objects {
						l = nBin("<", nProp(nProp(nID("O"), "Next", false), "V", false), g.lit())
					} else {
						l = nBin("!=", nIdx(nID("Ys"), g.smallIndex()), g.lit())
					}
				default:
					l = nBin(">=", nIdx(nID("Ys"), g.smallIndex()), g.intLeaf())
				}
				return nBin(op, l, nBool(g.r.Chance(1, 2)))
			}
			return nBin(op, g.Bool(), g.Bool())
		case 6:
			return nUn(g.r.Pick([]string{"not", "!"}), g.Bool())
		case 7:
			op := g.r.Pick([]string{"in", "not in"})
			return nBin(op, g.Int(), g.Seq())
		case 8:
			// literal range: the optimiser rewrites this into two comparisons
			if g.cfg.NoInRange || g.cfg.AllocOnly {
				continue
			}
			op := g.r.Pick([]string{"in", "not in"})
			lo := g.r.Range(-3, 4)
			hi := lo + g.r.Range(-1, 5)
			if g.cfg.Dyn && g.r.Chance(1, 4) {
				if a := g.dynAtom(); a != nil && (a.K == "call" || !g.cfg.MapRep) {
					return nBin(op, a, nBin("..", nInt(lo), nInt(hi))) // a dynamic value: in no range unless an int
				}
			}
			return nBin(op, g.Int(), nBin("..", nInt(lo), nInt(hi)))
		case 9:
			// literal array: the optimiser rewrites this into a map lookup
			if g.cfg.AllocOnly {
				continue // whether a constant array is built at run time depends on the optimiser
			}
			op := g.r.Pick([]string{"in", "not in"})
			k := g.r.Range(1, 4)
			xs := make([]*N, k)
			for i := range xs {
				xs[i] = nInt(g.r.Range(-4, 6))
			}
			return nBin(op, g.Int(), nArr(xs...))
		case 10:
			if !g.cfg.Maps || !g.cfg.Strings {
				continue
			}
			return nBin(g.r.Pick([]string{"in", "not in"}), g.Str(), g.MapExpr())
		case 11:
			if !g.callsOK() {
				continue
			}
			return nCall("P1", g.Int())
		case 12:
			if !g.cfg.ShortPred || !g.cfg.Closures {
				continue
			}
			name := g.r.Pick([]string{"all", "any", "none", "one"})
			g.noCalls++
			coll := g.Seq()
			body := g.closureBool("int")
			g.noCalls--
			return nBi(name, coll, body)
		case 13:
			if !g.cfg.Strings {
				continue
			}
			switch g.r.Intn(5) {
			case 4:
				// a pattern per element: every evaluation of matches reads its own pattern
				if !g.cfg.ShortPred || !g.cfg.Closures {
					continue
				}
				return nBi(g.r.Pick([]string{"all", "any", "none", "one"}), nID("Ss"), nBin("matches", g.strLeaf(), nPtr()))
			case 3:
				// the pattern is a constant concatenation (folded by the optimiser),
				// possibly ill-formed: then evaluation fails at run time
				a := g.r.Pick([]string{"^", "k", "(", "[a-", "a", "x."})
				b := g.r.Pick([]string{"b+", "z]", "abc", ")", "$", "["})
				if !g.cfg.Failing {
					a, b = "^", g.r.Pick([]string{"a", "k.", "b+"})
				}
				return nBin("matches", g.Str(), nBin("+", nStr(a), nStr(b)))
			case 0:
				return nBin("matches", g.Str(), nStr(g.r.Pick(rePool)))
			case 1:
				if g.cfg.Failing {
					return nBin("matches", g.Str(), nID("Re"))
				}
				fallthrough
			default:
				return nBin(g.r.Pick([]string{"contains", "startsWith", "endsWith"}), g.Str(), g.Str())
			}
		case 14:
			if !g.cfg.Strings {
				continue
			}
			op := g.r.Pick([]string{"==", "!=", "<", ">="})
			return nBin(op, g.Str(), g.Str())
		case 15:
			return nCond(g.Bool(), g.Bool(), g.Bool())
		case 16:
			if !g.cfg.NilSafe || !g.cfg.Objects {
				continue
			}
			which := g.r.Pick([]string{"On", "O"})
			var p *N
			if g.r.Chance(1, 2) {
				p = nProp(nID(which), "V", true)
			} else {
				p = nProp(nProp(nID(which), "Next", true), "V", true)
			}
			return nBin(g.r.Pick([]string{"==", "!="}), p, &N{K: "nil"})
		case 17:
			if !g.cfg.Strings || g.cfg.AllocOnly {
				continue
			}
			k := g.r.Range(1, 3)
			xs := make([]*N, k)
			for i := range xs {
				xs[i] = nStr(g.r.Pick(strPool))
			}
			return nBin(g.r.Pick([]string{"in", "not in"}), g.Str(), nArr(xs...))
		case 18:
			if !g.cfg.ConstFns || !g.cfg.Calls {
				continue
			}
			if g.r.Chance(2, 3) {
				return nCall("CB", g.constInt(1), g.constInt(1))
			}
			return nCall("CB", g.Int(), g.Int())
		case 19:
			if !g.cfg.Dyn {
				continue
			}
			a := g.dynAtom()
			if a == nil {
				continue
			}
			switch g.r.Intn(8) {
			case 5:
				if g.cfg.Strings && g.cfg.Failing && (a.K == "call" || !g.cfg.MapRep) {
					return nBin("matches", a, nStr(g.r.Pick(rePool))) // fails unless it holds a string
				}
				return nBin("==", a, g.Int())
			case 6:
				if g.cfg.Failing && (a.K == "call" || !g.cfg.MapRep) {
					return nUn(g.r.Pick([]string{"not", "!"}), a) // fails unless it holds a bool
				}
				return nBin("!=", a, g.Int())
			case 7:
				if g.cfg.Objects && g.cfg.Failing && (a.K == "call" || !g.cfg.MapRep) {
					return nBin("==", nProp(a, "V", false), g.Int()) // member of a dynamic value: fails unless it holds an object
				}
				return nBin("==", a, g.Int())
			case 4:
				// a dynamic value as the left operand of a connective: fails unless it holds a bool
				if g.cfg.Failing && (a.K == "call" || !g.cfg.MapRep) {
					return nBin(g.r.Pick([]string{"and", "or", "&&", "||"}), a, g.Bool())
				}
				return nBin("==", a, g.Int())
			case 0:
				return nBin(g.r.Pick([]string{"<", ">="}), a, g.Int())
			case 1:
				return nBin(g.r.Pick([]string{"==", "!="}), a, g.Int())
			case 2:
				if !g.cfg.AllocOnly && g.r.Chance(1, 2) {
					// dynamic left operand against a literal array (a rewrite candidate)
					return nBin(g.r.Pick([]string{"in", "not in"}), a, nArr(nInt(g.r.Range(-3, 3)), nInt(g.r.Range(0, 9)), nInt(1)))
				}
				return nBin(g.r.Pick([]string{"in", "not in"}), a, nID(g.r.Pick([]string{"Xs", "Ys"})))
			default:
				if a.K != "call" {
					// in a map environment Any has the static type of its value
					return nBin("==", a, g.Int())
				}
				return nUn("not", a)
			}
		default:
			return g.boolLeaf()
		}
	}
}

func (g *gen) boolLeaf() *N {
	if g.cfg.MapRep && g.r.Chance(1, 6) {
		return nID("info") // an identifier that begins with "in"
	}
	switch g.r.Intn(4) {
	case 0:
		return nBool(true)
	case 1:
		return nBool(false)
	case 2:
		return nID("P")
	default:
		return nID("Q")
	}
}

func (g *gen) closureBool(elem string) *N {
	g.closure = append(g.closure, elem)
	b := g.Bool()
	g.closure = g.closure[:len(g.closure)-1]
	return b
}

func (g *gen) closureInt(elem string) *N {
	g.closure = append(g.closure, elem)
	b := g.Int()
	g.closure = g.closure[:len(g.closure)-1]
	return b
}

// Str generates a string-valued expression.
func (g *gen) Str() *N {
	if !g.take() {
		return g.strLeaf()
	}
	for {
		switch g.r.Intn(10) {
		case 0, 1, 2:
			return g.strLeaf()
		case 3:
			return nBin("+", g.Str(), g.Str())
		case 4:
			if !g.callsOK() {
				continue
			}
			return nCall("S1", g.Str())
		case 5:
			if !g.cfg.Objects {
				continue
			}
			return nProp(nID("O"), "Name", false)
		case 6:
			// string slicing is byte-wise; keep the sliced operand ASCII by
			// slicing only S1 results of ASCII members or ASCII literals
			return nSlice(nStr(g.r.Pick([]string{"abcdef", "xy", ""})), g.optBound(), g.optBound())
		case 7:
			return nCond(g.Bool(), g.Str(), g.Str())
		case 8:
			if !g.cfg.Failing {
				continue
			}
			return nIdx(nID("Ss"), g.smallIndex())
		case 9:
			if !g.cfg.ConstFns || !g.cfg.Calls {
				continue
			}
			if g.r.Chance(2, 3) {
				switch g.r.Intn(3) {
				case 0:
					return nCall("CS", nStr(g.r.Pick(strPool)))
				case 1:
					return nCall("CS", nBin("+", nStr(g.r.Pick(strPool)), nStr(g.r.Pick(strPool))))
				default:
					return nCall("CS", nCall("CS", nStr(g.r.Pick(strPool))))
				}
			}
			return nCall("CS", g.Str())
		}
	}
}

func (g *gen) strLeaf() *N {
	switch g.r.Intn(4) {
	case 0:
		return nID("S")
	case 1:
		return nID("T")
	default:
		return nStr(g.r.Pick(strPool))
	}
}

func (g *gen) optBound() *N {
	if g.r.Chance(1, 12) && !g.cfg.AllocOnly {
		if a := g.dynFor(); a != nil {
			return a // a dynamic slice bound: fails unless it holds an int
		}
	}
	switch g.r.Intn(4) {
	case 0:
		return nil
	case 1:
		return nInt(g.r.Range(0, 4))
	case 2:
		if g.cfg.SliceCall && g.callsOK() {
			return g.intCall()
		}
		return nID(g.r.Pick(intMembers))
	default:
		return g.Int()
	}
}

// Seq generates a sequence of ints.
func (g *gen) Seq() *N {
	if !g.take() {
		return g.seqLeaf()
	}
	if n := len(g.closure); n > 0 && !g.cfg.AllocOnly && g.r.Chance(1, 5) {
		// the collection of an inner builtin mentions the OUTER closure's element
		if g.closure[n-1] == "obj" {
			return nProp(nPtr(), "Xs", false)
		}
		return nBin("..", nInt(g.r.Range(0, 1)), nBin("+", nPtr(), nInt(g.r.Range(0, 2))))
	}
	for {
		switch g.r.Intn(12) {
		case 0, 1:
			return g.seqLeaf()
		case 2, 3:
			k := g.r.Intn(5)
			xs := make([]*N, k)
			for i := range xs {
				xs[i] = g.Int()
			}
			if g.cfg.AllocOnly && k > 0 {
				xs[0] = nID(g.r.Pick(intMembers)) // at least one non-constant element: never folded
			}
			return nArr(xs...)
		case 4:
			return g.rangeExpr()
		case 5, 6:
			if !g.cfg.Closures {
				continue
			}
			return nBi("map", g.Seq(), g.closureInt("int"))
		case 7:
			if !g.cfg.Closures {
				continue
			}
			return nBi("filter", g.Seq(), g.closureBool("int"))
		case 8:
			from, to := g.optBound(), g.optBound()
			if !g.cfg.SliceCall && from != nil && to != nil && hasCall(from) && hasCall(to) {
				to = nInt(g.r.Range(0, 4))
			}
			return nSlice(g.Seq(), from, to)
		case 9:
			if !g.callsOK() || g.cfg.AllocOnly {
				continue
			}
			return nCall("Mk", g.Int())
		case 10:
			return nCond(g.Bool(), g.Seq(), g.Seq())
		case 11:
			if !g.cfg.Objects || g.cfg.AllocOnly {
				continue
			}
			return nProp(nID("O"), "Xs", false)
		}
	}
}

func (g *gen) seqLeaf() *N {
	if g.cfg.AllocOnly {
		return g.rangeExpr()
	}
	switch g.r.Intn(3) {
	case 0:
		return nID("Xs")
	case 1:
		return nID("Ys")
	default:
		return g.rangeExpr()
	}
}

func (g *gen) rangeExpr() *N {
	if g.cfg.AllocOnly {
		// bounds come from the environment: a run-time range
		k := 3
		if g.cfg.NarrowBounds {
			k = 5
		}
		switch g.r.Intn(k) {
		case 3:
			// bounds of a narrow integer kind, alone or mixed with an int
			return nBin("..", nID(g.r.Pick([]string{"I8", "U8"})), nInt(g.r.Range(100, 400)))
		case 4:
			return nBin("..", nInt(g.r.Range(-130, -90)), nID(g.r.Pick([]string{"I8", "U8", "U16"})))
		case 0:
			return nBin("..", nID("N"), nID("M"))
		case 1:
			return nBin("..", nInt(g.r.Range(-2, 2)), nID(g.r.Pick([]string{"N", "M", "A"})))
		default:
			return nBin("..", nID(g.r.Pick([]string{"N", "M", "A"})), nInt(g.r.Range(0, 6)))
		}
	}
	switch g.r.Intn(4) {
	case 0:
		lo := g.r.Range(-3, 4)
		return nBin("..", nInt(lo), nInt(lo+g.r.Range(-2, 5)))
	case 1:
		return nBin("..", nID("N"), nID("M"))
	case 2:
		return nBin("..", nInt(g.r.Range(-2, 2)), nID(g.r.Pick([]string{"N", "M"})))
	default:
		return nBin("..", nInt(1), nInt(g.r.Range(0, 5)))
	}
}

// MapExpr generates a map-valued expression (string keys, int values).
func (g *gen) MapExpr() *N {
	if !g.take() || g.r.Chance(1, 2) {
		if g.cfg.AllocOnly {
			return nMap(nPair("k1", nID("A")))
		}
		return nID("Mp")
	}
	k := g.r.Intn(4)
	pairs := make([]*N, 0, k)
	for i := 0; i < k; i++ {
		key := keyPool[i]
		if i > 0 && g.r.Chance(1, 4) {
			key = keyPool[g.r.Intn(i)] // a key written twice: the first pair's value stays
		}
		pairs = append(pairs, nPair(key, g.Int()))
	}
	return nMap(pairs...)
}

func hasCall(n *N) bool {
	found := false
	n.Walk(func(x *N) {
		if x.K == "call" || x.K == "meth" {
			found = true
		}
	})
	return found
}

// GenEnvData draws an environment value. Values are small so that loops are
// short; "bad" data (zero divisor, index out of range, nil link, bad regexp,
// wrongly typed Any) is chosen by the caller through the flags.
func GenEnvData(r *RNG) *EnvData {
	d := &EnvData{
		A: r.Range(-8, 8), B: r.Range(-8, 8), C: r.Range(-3, 3), D: r.Range(0, 5),
		Z: r.Range(-2, 3), N: r.Range(-2, 4), M: r.Range(-1, 7), K: r.Range(0, 4),
		P: r.Chance(1, 2), Q: r.Chance(1, 2),
		S: r.Pick(strPool), T: r.Pick(strPool), Re: r.Pick(rePool),
	}
	if r.Chance(1, 10) {
		d.Re = "(" // invalid pattern
	}
	n := r.Intn(6)
	d.Xs = make([]int, n)
	for i := range d.Xs {
		d.Xs[i] = r.Range(-5, 9)
	}
	n = r.Intn(4)
	d.Ys = make([]int, n)
	for i := range d.Ys {
		d.Ys[i] = r.Range(-2, 3)
	}
	n = r.Intn(4)
	d.Ss = make([]string, n)
	for i := range d.Ss {
		d.Ss[i] = r.Pick(strPool)
	}
	nk := r.Intn(4)
	for i := 0; i < nk; i++ {
		d.MpKeys = append(d.MpKeys, keyPool[i])
		d.MpVals = append(d.MpVals, r.Range(-4, 9))
	}
	d.O = &ObjData{V: r.Range(-3, 6), Name: r.Pick(strPool), Xs: []int{r.Range(0, 3), r.Range(0, 9)}}
	if r.Chance(2, 3) {
		d.O.Next = &ObjData{V: r.Range(-3, 6), Name: "next"}
	}
	if r.Chance(1, 6) {
		d.On = &ObjData{V: r.Range(0, 3), Name: "on"}
	}
	switch r.Intn(5) {
	case 0:
		d.Any = &AnyData{Kind: "str", S: "dyn"}
	case 1:
		d.Any = &AnyData{Kind: "bool", B: true}
	case 2:
		d.Any = nil
	default:
		d.Any = &AnyData{Kind: "int", I: r.Range(-3, 9)}
	}
	n = r.Intn(4)
	for i := 0; i < n; i++ {
		d.Objs = append(d.Objs, &ObjData{V: r.Range(-2, 5), Name: r.Pick(strPool)})
	}
	return d
}

func isPlainLeaf(n *N) bool {
	switch n.K {
	case "int", "id", "ptr", "none":
		return true
	}
	return false
}

func isLitInt(n *N) bool { return n.K == "int" }

// Sanitize rewrites, in place, the two shapes that hit defects recorded in
// known_findings.json when the scenario does not want them:
//   - `x in a..b` with literal bounds and calls in x (the optimiser evaluates
//     x twice), unless cfg.NoInRange is false;
//   - slices whose two bounds both have effects (the library evaluates the
//     upper bound first), unless cfg.SliceCall is true.
func Sanitize(root *N, cfg GenCfg, r *RNG) {
	root.Walk(func(n *N) {
		if n.K == "bin" && (n.S == "in" || n.S == "not in") && cfg.NoInRange {
			rg := n.C[1]
			if rg.K == "bin" && rg.S == ".." && isLitInt(rg.C[0]) && isLitInt(rg.C[1]) && hasCall(n.C[0]) {
				n.C[0] = nID(intMembers[r.Intn(len(intMembers))])
			}
		}
		if n.K == "slice" && !cfg.SliceCall {
			if n.C[1].K != "none" && n.C[2].K != "none" && !isPlainLeaf(n.C[1]) && !isPlainLeaf(n.C[2]) {
				n.C[1] = nInt(r.Range(0, 3))
			}
		}
	})
}
