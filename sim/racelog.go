package main

import (
	"fmt"
	"os"
	"regexp"
	"strings"
	"syscall"
)

// The race detector writes its reports to GORACE's log_path + "." + pid. The
// simulator reads what was appended while a scenario ran.

var raceLogOff int64

func raceLogPath() string {
	g := os.Getenv("GORACE")
	for _, f := range strings.Fields(g) {
		if strings.HasPrefix(f, "log_path=") {
			return strings.TrimPrefix(f, "log_path=") + "." + fmt.Sprint(os.Getpid())
		}
	}
	return ""
}

// ensureRaceLog re-executes the process with a GORACE log path when the binary
// is race-enabled and none is configured (GORACE is read before main starts).
func ensureRaceLog() {
	if !raceEnabled || raceLogPath() != "" {
		return
	}
	os.MkdirAll(outRoot()+"/work", 0o755)
	env := append(os.Environ(), "GORACE=log_path="+outRoot()+"/work/race.adhoc halt_on_error=0 history_size=2 atexit_sleep_ms=0 exitcode=0")
	self, err := os.Executable()
	if err != nil {
		return
	}
	if err := syscall.Exec(self, os.Args, env); err != nil {
		fmt.Fprintln(os.Stderr, "cannot re-exec with GORACE:", err)
	}
}

// raceLogDelta returns the race reports written since the previous call.
func raceLogDelta() string {
	if !raceEnabled {
		return ""
	}
	p := raceLogPath()
	if p == "" {
		return ""
	}
	f, err := os.Open(p)
	if err != nil {
		return ""
	}
	defer f.Close()
	st, err := f.Stat()
	if err != nil || st.Size() <= raceLogOff {
		return ""
	}
	buf := make([]byte, st.Size()-raceLogOff)
	n, _ := f.ReadAt(buf, raceLogOff)
	raceLogOff += int64(n)
	return string(buf[:n])
}

func removeRaceLog() {
	if p := raceLogPath(); p != "" {
		os.Remove(p)
	}
}

var raceFrameRe = regexp.MustCompile(`github\.com/antonmedv/expr(/[A-Za-z0-9_/]+)?\.([A-Za-z0-9_.()*]+)\(\)`)

// raceSite names the first library function in a race report ("" if none).
func raceSite(report string) string {
	m := raceFrameRe.FindStringSubmatch(report)
	if m == nil {
		return ""
	}
	pkg := strings.TrimPrefix(m[1], "/")
	if pkg == "" {
		pkg = "expr"
	}
	return pkg + "." + m[2]
}
