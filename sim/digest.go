package main

import (
	"fmt"
	"os"
	"strconv"
)

// digestMain: verifsim digest <prop> <tier> <seed> <from> <to> — executes
// scenarios [from,to) and prints, per scenario, the digest of its full event
// log (every pick, step, call, fault, result) and the class of its finding.
// Used by selftest.sh to prove that a seed is one exactly repeatable execution
// across processes, GOMAXPROCS values and worker counts.
func digestMain(args []string) int {
	if len(args) < 5 {
		usage()
	}
	e, ok := engines[args[0]]
	if !ok {
		fmt.Fprintln(os.Stderr, "unknown property")
		return 2
	}
	tier := args[1]
	seed, _ := strconv.ParseUint(args[2], 10, 64)
	from, _ := strconv.Atoi(args[3])
	to, _ := strconv.Atoi(args[4])
	for i := from; i < to; i++ {
		sc := e.Gen(DeriveSeed(seed, args[0], i), i, tier)
		ctx := NewRunCtx()
		var f *Finding
		var im string
		if cs, ok := e.(ColdStarter); ok && cs.ColdStart(sc) {
			f, im = runFresh(e, sc, ctx)
		} else {
			f, im = runGuarded(e, sc, ctx)
		}
		class := "-"
		if f != nil {
			class = f.Class
		}
		fmt.Printf("%s %d scenario=%s log=%s finding=%s infra=%q\n", args[0], i, Digest(string(mustJSON(sc))), ctx.LogDigest(), class, im)
	}
	removeRaceLog()
	return 0
}
