package main

import (
	"encoding/json"
	"fmt"

	"github.com/antonmedv/expr/vm"
)

// C01 (scoped): the external-call history. Fault-free the library's result
// and call journal equal the reference's; with call k failed the run fails,
// the journal is exactly the first k+1 reference entries, the value is nil.

type c01Engine struct{}

func init() { register(c01Engine{}) }

func (c01Engine) Property() string { return "C01" }
func (c01Engine) Name() string     { return "envsim/call-history" }
func (c01Engine) Level() string    { return "exploration" }
func (c01Engine) Count(tier string) int {
	if tier == "thorough" {
		return 1500000
	}
	return 100000
}
func (c01Engine) Rule() string {
	return "Scenario i is generated from H(VERIF_SEED,'C01',i): a typed random program of the mini-expr fragment (<=40 nodes), an environment value, knobs (env as struct/pointer/map, pure vs stateful functions, optimisation on/off, Compile+Run vs Eval, fresh vs reused VM, token layout) and a fault plan over the call indices of the reference journal (quick: fault-free + 3 sampled k; thorough: every k, each with a seeded fault kind). One evaluation = one execution of the library plus one of the reference. A case is non-trivial when the reference journal of its fault-free run contains at least one external call; distinct = distinct (source text, environment, knobs, fault) signatures among those."
}
func (c01Engine) Assumptions() []string {
	return []string{
		"the mini-expr reference evaluator, printer and generator (harness code) state the language definition correctly for the fragment",
		"results say nothing about constructs outside the fragment (floats, **, string indexing, all/any/none/one predicates containing calls, the a ?: b form, sequence equality)",
		"the exhaustive 'every expression up to a node budget' half of C01 is not decided here (pure input-space claim; see DESIGN §3 C01)",
		"sampling: a clean batch is evidence, not proof",
	}
}
func (c01Engine) Required(tier string) []string {
	return []string{"hook_calls", "runs_faultfree", "runs_faulted", "fault_fired/" + FPanicString, "fault_fired/" + FRuntimeNil, "fault_in_closure", "journal_entries"}
}

func (c01Engine) Decode(raw []byte) (interface{}, error) {
	var sc EnvScenario
	err := json.Unmarshal(raw, &sc)
	return &sc, err
}

func c01GenCfg(r *RNG, rep string, d *EnvData) GenCfg {
	cfg := GenCfg{Budget: r.Range(4, 40), Calls: true, Dyn: r.Chance(2, 3), Failing: r.Chance(3, 4), Strings: r.Chance(3, 4),
		Closures: r.Chance(4, 5), Maps: r.Chance(2, 3), Objects: r.Chance(3, 4), ShortPred: r.Chance(2, 3), NilSafe: r.Chance(1, 2), SliceCall: true, Pow: true}
	cfg.AnyUsable = rep != RepMap || (d.Any != nil && d.Any.Kind == "int")
	cfg.MapRep = rep == RepMap
	return cfg
}

func genRoot(g *gen, r *RNG) *N {
	if g.cfg.Calls && !g.cfg.AllocOnly && r.Chance(1, 12) {
		// tuples: a fast-call function that keeps (returns) its variadic slice;
		// several results are alive at the same time
		if g.cfg.Closures && r.Chance(1, 2) {
			return nBi("map", g.Seq(), nCall("Tup", nPtr(), nBin("*", nPtr(), nInt(2))))
		}
		k := r.Range(2, 3)
		xs := make([]*N, k)
		for i := range xs {
			xs[i] = nCall("Tup", g.Int(), g.intLeaf())
		}
		return nArr(xs...)
	}
	switch r.Intn(6) {
	case 0:
		return g.Bool()
	case 1:
		return g.Seq()
	case 2:
		if g.cfg.Strings {
			return g.Str()
		}
		return g.Int()
	case 3:
		if g.cfg.Maps {
			return g.MapExpr()
		}
		return g.Int()
	default:
		return g.Int()
	}
}

func (c01Engine) Gen(seed uint64, idx int, tier string) interface{} {
	r := NewRNG(seed)
	sc := &EnvScenario{Seed: seed, Index: idx}
	sc.Env = GenEnvData(r)
	sc.Rep = []string{RepStruct, RepPtr, RepMap}[r.Intn(3)]
	sc.Stateful = r.Chance(1, 2)
	sc.Optimize = !r.Chance(1, 5)
	sc.API = "run"
	if r.Chance(1, 10) {
		sc.API = "eval"
	}
	sc.Reuse = r.Chance(1, 4)
	sc.Layout = Layout{Mode: r.Intn(3), Salt: r.Next()}
	cfg0 := c01GenCfg(r, sc.Rep, sc.Env)
	g := NewGen(r.Fork(), cfg0)
	sc.Tree = genRoot(g, r)
	if r.Chance(1, 25) && cfg0.Objects {
		// a result directive on a member access of static type int64 / float64 whose
		// value is nil when a link is missing
		sc.API = "run"
		recv := nID(r.Pick([]string{"O", "On"}))
		var chain *N
		switch r.Intn(3) {
		case 0:
			chain = nProp(recv, r.Pick([]string{"L", "F"}), true)
		case 1:
			chain = nProp(nProp(recv, "Next", true), r.Pick([]string{"L", "F"}), true)
		default:
			chain = nProp(nID("O"), r.Pick([]string{"L", "F", "V"}), false)
		}
		sc.Tree = chain
		sc.Expect = r.Pick([]string{"int64", "float64"})
	}
	sc.Source = Print(sc.Tree, sc.Layout).Src

	// The fault plan is drawn over the call indices of the reference journal.
	w := NewWorld(sc.Stateful, nil, nil)
	ref := NewRef(BuildEnv(w, sc.Env))
	ref.Eval(sc.Tree)
	n := len(w.Journal)
	fr := r.Fork()
	if tier == "thorough" {
		for k := 0; k < n && k < 40; k++ {
			sc.Faults = append(sc.Faults, CallFault{Idx: k, Kind: allFaultKinds[fr.Intn(len(allFaultKinds))]})
		}
	} else {
		for j := 0; j < 3 && j < n; j++ {
			sc.Faults = append(sc.Faults, CallFault{Idx: fr.Intn(n), Kind: allFaultKinds[fr.Intn(len(allFaultKinds))]})
		}
	}
	return sc
}

func (c01Engine) Run(sci interface{}, ctx *RunCtx) *Finding {
	sc := sci.(*EnvScenario)
	pr := Print(sc.Tree, sc.Layout)
	ctx.Logf("source %q rep=%s stateful=%v optimize=%v api=%s reuse=%v", pr.Src, sc.Rep, sc.Stateful, sc.Optimize, sc.API, sc.Reuse)

	var prog *vm.Program
	if sc.API != "eval" {
		w0 := NewWorld(false, nil, nil)
		w0.Phase = "compile"
		sample := BuildEnv(w0, sc.Env).AsRep(sc.Rep)
		var co Outcome
		prog, co = sutCompile(pr.Src, compileOpts(sc, sample)...)
		ctx.Logf("compile: %s", firstLine(co.ErrText()))
		if co.Panicked {
			return &Finding{Class: "C01/compile-panic", Detail: "Compile panicked on a well-formed program: " + co.PanicVal + "\nsource: " + pr.Src}
		}
		if co.Err != nil {
			return &Finding{Class: "C01/compile-rejected", Detail: "Compile rejected a well-formed, well-typed program of the fragment: " + co.ErrText() + "\nsource: " + pr.Src}
		}
		if len(w0.Journal) != 0 {
			return &Finding{Class: "C01/call-at-compile-time", Detail: fmt.Sprintf("environment functions were called during Compile without ConstExpr: %v", journalStrings(w0.Journal))}
		}
	}

	var machine *vm.VM
	if sc.Reuse && sc.API != "eval" {
		machine = &vm.VM{}
		// warm-up run on its own world: leaves whatever state a run leaves
		ww := NewWorld(sc.Stateful, nil, nil)
		beginRun(-1, 0)
		sutRun(machine, prog, BuildEnv(ww, sc.Env).AsRep(sc.Rep))
	}

	check := func(faults []CallFault, label string) *Finding {
		r := execBoth(sc, pr.Src, prog, machine, faults, 0)
		ctx.Eval()
		ctx.Logf("%s: library %s | definition %s | journal %v | fired %v", label, outcomeText(r.sut), refText(r.refV, r.refErr), journalStrings(r.sutJ), r.sutFire)
		for _, k := range r.sutFire {
			ctx.Count("fault_fired/"+k, 1)
		}
		ctx.Count("journal_entries", len(r.refJ))
		if len(r.refJ) > 0 {
			sig := fmt.Sprintf("%s|%s|%s|%v|%v|%s|%v|%v", pr.Src, sc.Env, sc.Rep, sc.Stateful, sc.Optimize, sc.API, sc.Reuse, faults)
			ctx.Nontrivial(sig)
		}
		if len(faults) > 0 && r.refErr != nil && r.refErr.External {
			ctx.Count("runs_failed_by_fault", 1)
			if len(r.stackDepthHint()) > 0 {
				ctx.Count("fault_in_closure", 1)
			}
		}
		if r.refErr != nil && !r.refErr.External {
			ctx.Count("runs_failed_by_data", 1)
		}
		if r.tooBig {
			ctx.Count("skipped_reference_cost_bound", 1)
			return nil
		}
		oracle, detail := compareExec(r)
		if oracle == "" {
			return nil
		}
		return &Finding{Class: "C01/" + oracle, Detail: fmt.Sprintf("%s\nsource: %s\nenv: %s\nfaults: %v (%s)", detail, pr.Src, sc.Env, faults, label)}
	}

	ctx.Count("runs_faultfree", 1)
	f := check(nil, "fault-free")
	if f == nil {
		for _, fl := range sc.Faults {
			ctx.Count("runs_faulted", 1)
			if f = check([]CallFault{fl}, fmt.Sprintf("fault@%d:%s", fl.Idx, fl.Kind)); f != nil {
				break
			}
		}
	}
	if f == nil {
		if len(ctx.Samples) < ctx.MaxSamp && len(sc.Faults) > 0 {
			ctx.Sample(map[string]interface{}{"source": pr.Src, "env_representation": sc.Rep, "stateful": sc.Stateful, "faults": sc.Faults, "reused_vm": sc.Reuse})
		}
		return nil
	}
	f.Class += c01Feature(sc, f.Class)
	return f
}

// stackDepthHint reports whether the reference failure happened inside a
// closure body (used only for reach counters).
func (r execResult) stackDepthHint() string {
	if r.refErr == nil || r.refErr.Node == nil {
		return ""
	}
	return r.refErr.inClosure
}

// c01Feature attributes a violation to a structural feature by ablation: if
// rewriting one known shape away makes the scenario pass, the shape is the
// feature. Everything else is "/general".
func c01Feature(sc *EnvScenario, class string) string {
	try := func(cfg GenCfg) bool {
		c := sc.clone()
		Sanitize(c.Tree, cfg, NewRNG(1))
		if mustJSONString(c.Tree) == mustJSONString(sc.Tree) {
			return false
		}
		q := NewRunCtx()
		q.Quiet = true
		f, im := runGuarded(c01Plain{}, c, q)
		return im == "" && f == nil
	}
	if try(GenCfg{NoInRange: true, SliceCall: true}) {
		return "/in-literal-range-lhs"
	}
	if try(GenCfg{SliceCall: false}) {
		return "/slice-bound-order"
	}
	return "/general"
}

func mustJSONString(v interface{}) string { return string(mustJSON(v)) }

// c01Plain runs the C01 oracles without feature attribution (used by the
// attribution itself).
type c01Plain struct{ c01Engine }

func (c01Plain) Run(sci interface{}, ctx *RunCtx) *Finding {
	sc := sci.(*EnvScenario)
	pr := Print(sc.Tree, sc.Layout)
	var prog *vm.Program
	if sc.API != "eval" {
		w0 := NewWorld(false, nil, nil)
		sample := BuildEnv(w0, sc.Env).AsRep(sc.Rep)
		var co Outcome
		prog, co = sutCompile(pr.Src, compileOpts(sc, sample)...)
		if co.Failed() {
			return &Finding{Class: "compile"}
		}
	}
	all := append([][]CallFault{nil}, func() [][]CallFault {
		var o [][]CallFault
		for _, f := range sc.Faults {
			o = append(o, []CallFault{f})
		}
		return o
	}()...)
	for _, fl := range all {
		r := execBoth(sc, pr.Src, prog, nil, fl, 0)
		if r.tooBig {
			continue
		}
		if o, _ := compareExec(r); o != "" {
			return &Finding{Class: o}
		}
	}
	return nil
}

func (c01Engine) Shrinks(sci interface{}) []interface{} {
	sc := sci.(*EnvScenario)
	var out []interface{}
	add := func(f func(c *EnvScenario)) {
		c := sc.clone()
		f(c)
		if mustJSONString(c) != mustJSONString(sc) {
			out = append(out, c)
		}
	}
	// fewer faults first
	if len(sc.Faults) > 1 {
		for i := range sc.Faults {
			i := i
			add(func(c *EnvScenario) { c.Faults = []CallFault{sc.Faults[i]} })
		}
	}
	if len(sc.Faults) > 0 {
		add(func(c *EnvScenario) { c.Faults = nil })
	}
	for _, t := range treeShrinks(sc.Tree) {
		t := t
		add(func(c *EnvScenario) { c.Tree = t; c.Source = Print(t, c.Layout).Src })
	}
	add(func(c *EnvScenario) { c.Reuse = false })
	add(func(c *EnvScenario) { c.Layout = Layout{}; c.Source = Print(c.Tree, c.Layout).Src })
	add(func(c *EnvScenario) { c.Rep = RepStruct })
	add(func(c *EnvScenario) { c.Stateful = false })
	add(func(c *EnvScenario) { c.API = "run" })
	add(func(c *EnvScenario) { c.Optimize = true })
	add(func(c *EnvScenario) { c.Expect = "" })
	for _, e := range envShrinks(sc.Env) {
		e := e
		add(func(c *EnvScenario) { c.Env = e })
	}
	for i, fl := range sc.Faults {
		if fl.Kind != FPanicString {
			i := i
			add(func(c *EnvScenario) { c.Faults[i].Kind = FPanicString })
		}
	}
	return out
}
