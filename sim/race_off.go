//go:build !race
// +build !race

package main

const raceEnabled = false
