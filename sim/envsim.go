package main

import (
	"encoding/json"
	"fmt"
	"strings"

	"github.com/antonmedv/expr"
	"github.com/antonmedv/expr/vm"
)

// ---------------------------------------------------------------------------
// envsim: the library runs real code; the environment it calls into and reads
// from is the simulated world. Shared pieces for C01, C02, C04, C06, C13.
// ---------------------------------------------------------------------------

// EnvScenario is the explicit data of one envsim scenario.
type EnvScenario struct {
	Seed     uint64      `json:"seed"`
	Index    int         `json:"index"`
	Rep      string      `json:"env_representation"`
	Stateful bool        `json:"stateful_functions"`
	Optimize bool        `json:"optimize"`
	API      string      `json:"api"` // "run" (Compile+Run) or "eval"
	Reuse    bool        `json:"reused_vm"`
	Layout   Layout      `json:"layout"`
	Tree     *N          `json:"tree"`
	Env      *EnvData    `json:"env"`
	// Expect: result directive (AsInt64 / AsFloat64); "" = none. The program is then a
	// member access whose static type is int64 / float64 and whose value may be nil.
	Expect string `json:"expect,omitempty"`
	Faults   []CallFault `json:"faults"`                // each one is executed as its own single-fault run
	Source   string      `json:"source_text,omitempty"` // informational; regenerated from Tree
}

func (sc *EnvScenario) clone() *EnvScenario {
	b, _ := json.Marshal(sc)
	var c EnvScenario
	json.Unmarshal(b, &c)
	return &c
}

func compileOpts(sc *EnvScenario, sample interface{}) []expr.Option {
	opts := []expr.Option{expr.Env(sample)}
	if !sc.Optimize {
		opts = append(opts, expr.Optimize(false))
	}
	switch sc.Expect {
	case "int64":
		opts = append(opts, expr.AsInt64())
	case "float64":
		opts = append(opts, expr.AsFloat64())
	}
	return opts
}

// castExpect applies the result directive to the reference value: the result is
// converted to int64 / float64; a value that is not a number fails.
func castExpect(expect string, v interface{}, n *N) (interface{}, *EvalError) {
	if expect == "" {
		return v, nil
	}
	var f float64
	switch x := v.(type) {
	case int:
		f = float64(x)
	case int64:
		f = float64(x)
	case float64:
		f = x
	default:
		return nil, &EvalError{Node: n, Msg: fmt.Sprintf("cannot convert %T to %s", v, expect)}
	}
	if expect == "int64" {
		return int64(f), nil
	}
	return f, nil
}

// execResult is one execution of the system under test and of the reference.
type execResult struct {
	sut     Outcome
	sutJ    []CallRec
	sutFire []string
	refV    interface{}
	refErr  *EvalError
	refJ    []CallRec
	allocs  []int
	tooBig  bool // the reference evaluation hit its cost bound: no verdict
}

// execBoth runs the compiled program (or Eval) on a fresh world with the given
// faults, and the reference on an identical fresh world.
func execBoth(sc *EnvScenario, src string, prog *vm.Program, machine *vm.VM, faults []CallFault, limit int) execResult {
	var r execResult
	w1 := NewWorld(sc.Stateful, faults, nil)
	e1 := BuildEnv(w1, sc.Env)
	envv := e1.AsRep(sc.Rep)
	beginRun(-1, limit)
	if sc.API == "eval" {
		r.sut = sutEval(src, envv)
	} else {
		r.sut = sutRun(machine, prog, envv)
	}
	r.sutJ = w1.Journal
	r.sutFire = w1.Fired

	w2 := NewWorld(sc.Stateful, faults, nil)
	e2 := BuildEnv(w2, sc.Env)
	ref := NewRef(e2)
	r.refV, r.refErr = ref.Eval(sc.Tree)
	if r.refErr == nil {
		r.refV, r.refErr = castExpect(sc.Expect, r.refV, sc.Tree)
	}
	r.refJ = w2.Journal
	r.allocs = ref.Allocs
	r.tooBig = ref.TooBig
	return r
}

func journalStrings(j []CallRec) []string {
	out := make([]string, len(j))
	for i, c := range j {
		out[i] = c.String()
	}
	return out
}

// journalDiff classifies the difference between the observed and the
// reference journal: "" when equal.
func journalDiff(sut, ref []CallRec) string {
	a, b := journalStrings(sut), journalStrings(ref)
	if strings.Join(a, "\x00") == strings.Join(b, "\x00") {
		return ""
	}
	isSubseq := func(small, big []string) bool {
		i := 0
		for _, x := range big {
			if i < len(small) && small[i] == x {
				i++
			}
		}
		return i == len(small)
	}
	switch {
	case len(a) > len(b) && isSubseq(b, a):
		return "journal-extra-calls"
	case len(a) < len(b) && isSubseq(a, b):
		return "journal-missing-calls"
	case len(a) == len(b) && sameMultiset(a, b):
		return "journal-order"
	}
	return "journal-differs"
}

func sameMultiset(a, b []string) bool {
	m := map[string]int{}
	for _, x := range a {
		m[x]++
	}
	for _, x := range b {
		m[x]--
	}
	for _, x := range a { // iterate a slice, not the map: deterministic
		if m[x] != 0 {
			return false
		}
	}
	for _, x := range b {
		if m[x] != 0 {
			return false
		}
	}
	return true
}

// compareExec applies the C01 oracles to one execution. It returns the oracle
// name that fired ("" = none) and a human-readable detail.
func compareExec(r execResult) (string, string) {
	if r.sut.Panicked {
		return "panic-escaped", "a panic escaped the library: " + r.sut.PanicVal
	}
	if r.sut.Err != nil && r.sut.Out != nil {
		return "value-with-error", fmt.Sprintf("error %q returned together with non-nil value %s", r.sut.Err, Canon(r.sut.Out))
	}
	sutFail, refFail := r.sut.Err != nil, r.refErr != nil
	jd := journalDiff(r.sutJ, r.refJ)
	if sutFail != refFail {
		what := "fails-but-definition-succeeds"
		if !sutFail {
			what = "succeeds-but-definition-fails"
		}
		if jd != "" {
			what = jd + "+" + what
		}
		return what, fmt.Sprintf("library: %s ; definition: %s\n journal (library):   %v\n journal (definition): %v",
			outcomeText(r.sut), refText(r.refV, r.refErr), journalStrings(r.sutJ), journalStrings(r.refJ))
	}
	if jd != "" {
		return jd, fmt.Sprintf("journal (library):    %v\njournal (definition): %v\nlibrary: %s ; definition: %s",
			journalStrings(r.sutJ), journalStrings(r.refJ), outcomeText(r.sut), refText(r.refV, r.refErr))
	}
	if !refFail && Canon(r.sut.Out) != Canon(r.refV) {
		return "wrong-value", fmt.Sprintf("library returned %s, definition gives %s", Canon(r.sut.Out), Canon(r.refV))
	}
	return "", ""
}

func outcomeText(o Outcome) string {
	if o.Failed() {
		return "error(" + firstLine(o.ErrText()) + ")"
	}
	return "value " + Canon(o.Out)
}

func refText(v interface{}, e *EvalError) string {
	if e != nil {
		return "failure(" + e.Msg + ")"
	}
	return "value " + Canon(v)
}

func firstLine(s string) string {
	if i := strings.IndexByte(s, '\n'); i >= 0 {
		return s[:i]
	}
	return s
}

// ---------------------------------------------------------------------------
// Shrinking helpers shared by the envsim engines.
// ---------------------------------------------------------------------------

func nodeAt(root *N, idx int) (*N, *N, int) { // node, parent, child slot
	var found, parent *N
	slot := -1
	i := 0
	var rec func(n, p *N, s int)
	rec = func(n, p *N, s int) {
		if found != nil {
			return
		}
		if i == idx {
			found, parent, slot = n, p, s
			return
		}
		i++
		for k, c := range n.C {
			rec(c, n, k)
		}
	}
	rec(root, nil, -1)
	return found, parent, slot
}

func countAll(n *N) int {
	c := 1
	for _, k := range n.C {
		c += countAll(k)
	}
	return c
}

// treeShrinks returns smaller variants of root: every node replaced by one of
// its descendants' subtrees (children first) or by a leaf. Ill-typed variants
// are produced too; they are rejected by the shrinker because they no longer
// show the same class of violation.
func treeShrinks(root *N) []*N {
	var out []*N
	total := countAll(root)
	leaves := []*N{nInt(0), nInt(1), nBool(true), nBool(false), nStr(""), nID("Xs"), nID("A")}
	for idx := 0; idx < total; idx++ {
		n, _, _ := nodeAt(root, idx)
		if n == nil || n.K == "none" || n.K == "pair" {
			continue
		}
		var reps []*N
		for _, c := range n.C {
			if c.K == "none" {
				continue
			}
			if c.K == "pair" {
				reps = append(reps, c.C[0])
				continue
			}
			reps = append(reps, c)
		}
		if len(n.C) > 0 {
			reps = append(reps, leaves...)
		} else if n.K == "int" && n.I != 0 && n.I != 1 {
			reps = append(reps, nInt(0), nInt(1))
		}
		// shrink list-like nodes by dropping one element
		if n.K == "arr" || n.K == "map" || (n.K == "call" && n.S == "Va") {
			for d := range n.C {
				c := n.Clone()
				c.C = append(c.C[:d:d], c.C[d+1:]...)
				reps = append(reps, c)
			}
		}
		for _, rep := range reps {
			cr := root.Clone()
			if idx == 0 {
				out = append(out, rep.Clone())
				continue
			}
			_, p, s := nodeAt(cr, idx)
			if p == nil {
				continue
			}
			if p.C[s].K == "pair" {
				continue
			}
			p.C[s] = rep.Clone()
			out = append(out, cr)
		}
	}
	return out
}

func envShrinks(d *EnvData) []*EnvData {
	var out []*EnvData
	mod := func(f func(e *EnvData)) {
		b, _ := json.Marshal(d)
		var c EnvData
		json.Unmarshal(b, &c)
		f(&c)
		b2, _ := json.Marshal(&c)
		if string(b2) != string(b) {
			out = append(out, &c)
		}
	}
	mod(func(e *EnvData) { e.Objs = nil })
	mod(func(e *EnvData) { e.Ss = nil })
	mod(func(e *EnvData) { e.Ys = nil })
	mod(func(e *EnvData) { e.MpKeys, e.MpVals = nil, nil })
	mod(func(e *EnvData) { e.On = nil })
	mod(func(e *EnvData) {
		if len(e.Xs) > 0 {
			e.Xs = e.Xs[:len(e.Xs)-1]
		}
	})
	mod(func(e *EnvData) { e.S, e.T = "a", "b" })
	mod(func(e *EnvData) { e.A, e.B, e.C, e.D = 1, 2, 3, 4 })
	mod(func(e *EnvData) { e.Any = &AnyData{Kind: "int", I: 1} })
	return out
}
