package main

import (
	"encoding/json"
	"fmt"
	"os"
	"os/exec"
	"strconv"
	"strings"

	"github.com/antonmedv/expr"
	"github.com/antonmedv/expr/vm"
)

// ---------------------------------------------------------------------------
// C09: purity and determinism.
//  (a) no mutation under any history: snapshots of every program, environment
//      value and sample environment around every op of a vmsim history,
//      including ops that fail midway, are crashed at an instruction or
//      exhaust the budget;
//  (b) same run, same result: every op is re-run on an equal environment;
//  (c) same source, same program: every source is compiled 16 times in the
//      process, and the driver launches fresh processes with the same seed and
//      compares their program digests (Go's map iteration order, hash seed and
//      addresses cannot be seeded from outside; they are sampled by repetition
//      and stated as such).
// ---------------------------------------------------------------------------

type c09Engine struct{}

func init() { register(c09Engine{}) }

func (c09Engine) Property() string { return "C09" }
func (c09Engine) Name() string     { return "vmsim/purity-and-determinism" }
func (c09Engine) Level() string    { return "exploration" }
func (c09Engine) Count(tier string) int {
	if tier == "thorough" {
		return 30000
	}
	return 1600
}
func (c09Engine) Rule() string {
	return "Scenario i from H(VERIF_SEED,'C09',i): a vmsim history (as C07: 3-6 programs, 2-3 environments, 1-3 long-lived VMs, 6-60 ops with budgets, call faults and crashes, plus crash-point enumeration at every instruction) biased toward programs that read where a write would go (filter/map/slices over environment-owned and folded constant slices, membership on environment maps with absent keys, nil-safe access to absent members, constants of every kind). Around EVERY op the deep snapshots (reflection walk: unexported fields, spare slice capacity, sorted maps, floats by bits) of all programs and of the environment value must be unchanged, and the op re-run on an equal environment must give an equal result and call journal. Each source is compiled 16 times in-process (optionally with ConstExpr functions) and the canonical program dumps (bytecode, constants, locations, source) and the sample environment's snapshot must be identical; the driver re-computes the dumps of the first scenarios in 8 (thorough: 32) fresh processes at GOMAXPROCS 1/4/16 and compares digests. One evaluation = one op (with its snapshots and re-run) or one repeated compilation. Non-trivial = an op on a program that reads environment-owned or constant collections, or a compilation of a program with at least two constants; distinct = distinct (program, env, budget, fault, crash point, history digest) signatures."
}
func (c09Engine) Assumptions() []string {
	return []string{
		"the snapshot walker (harness code) sees every byte a run could change: exported and unexported fields, slice contents and spare capacity, map contents, pointers followed with cycle detection; function values are compared by nil-ness only",
		"Go-runtime nondeterminism (map iteration order, hash seed, addresses) cannot be seeded: it is sampled by 16 compilations per source in-process and by fresh processes, not controlled",
		"sampling of histories; crash points enumerated exhaustively per (program, probe) pair, capped at 600 instructions",
	}
}
func (c09Engine) Required(tier string) []string {
	return []string{"hook_calls", "snapshots_compared", "compilations_repeated", "ops_on_used_vm", "crash_fired", "grid_crash_points", "budget_exceeded_on_fresh", "call_fault_fired", "processes_compared", "programs_with_map_constants", "held_programs_rechecked", "operator_overload_programs", "single_scenario_processes", "ops_fed_previous_result", "shared_option_recompilations"}
}
func (c09Engine) Decode(raw []byte) (interface{}, error) {
	var sc VMScenario
	err := json.Unmarshal(raw, &sc)
	return &sc, err
}
func (c09Engine) Gen(seed uint64, idx int, tier string) interface{} {
	sc := genVMScenario(seed, idx, tier, true)
	r := NewRNG(seed ^ 0xC09)
	sc.ConstExpr = r.Chance(1, 3)
	if r.Chance(1, 3) {
		// an overloaded operator with two candidate functions that both accept the operands
		sc.Operators = true
		var t *N
		switch r.Intn(3) {
		case 0:
			t = nBin("**", nID("O"), nID("O"))
		case 1:
			t = nBin("*", nBin("**", nID("O"), nProp(nID("O"), "Next", false)), nInt(2))
		default:
			t = nBi("map", nID("Objs"), nBin("**", nPtr(), nID("O")))
		}
		ps := ProgSpec{Kind: "overload", Tree: t, Optimize: r.Chance(3, 4)}
		ps.Source = ps.Src()
		sc.Progs[r.Intn(len(sc.Progs))] = ps
	}
	if r.Chance(1, 4) {
		src := []string{"PtrM(1)", "PtrM(A) + 1", "index + 1", "not info"}[r.Intn(4)]
		ps := ProgSpec{Kind: "probe", Raw: src, Optimize: true}
		ps.Source = src
		sc.Progs[r.Intn(len(sc.Progs))] = ps
	}
	return sc
}

func c09Opts(sc *VMScenario, p ProgSpec, sample interface{}) []expr.Option {
	return vmOpts(sc, p, sample)
}

// progDigests compiles every program of the scenario once and returns the
// digests of the canonical dumps ("" for a rejected program, with the error).
func progDigests(sc *VMScenario) []string {
	out := make([]string, len(sc.Progs))
	for i, p := range sc.Progs {
		src := p.Src()
		w0 := NewWorld(false, nil, nil)
		w0.Phase = "compile"
		sample := BuildEnv(w0, sc.Envs[0]).AsRep(sc.Rep)
		pr, co := sutCompile(src, c09Opts(sc, p, sample)...)
		if co.Failed() {
			out[i] = "rejected:" + Digest(co.ErrText())
			continue
		}
		// the program AND what it returns on the scenario's first environment
		w := NewWorld(false, nil, nil)
		envv := BuildEnv(w, sc.Envs[0]).AsRep(sc.Rep)
		vm.MemoryBudget = defaultBudget
		beginRun(-1, 0)
		res := sutRun(nil, pr, envv)
		out[i] = Digest(Snapshot(pr) + "|" + res.Key() + "|" + strings.Join(journalStrings(w.Journal), ";"))
	}
	return out
}

func (c09Engine) Run(sci interface{}, ctx *RunCtx) *Finding {
	sc := sci.(*VMScenario)
	// (c) same source, same program; and a program is not changed by later compilations
	type heldProg struct {
		prog *vm.Program
		dump string
		src  string
	}
	var held []heldProg
	for i, p := range sc.Progs {
		src := p.Src()
		first, firstJ := "", ""
		for rep := 0; rep < 16; rep++ {
			w0 := NewWorld(false, nil, nil)
			w0.Phase = "compile"
			sample := BuildEnv(w0, sc.Envs[0]).AsRep(sc.Rep)
			before := Snapshot(sample)
			pr, co := sutCompile(src, c09Opts(sc, p, sample)...)
			ctx.Eval()
			ctx.Count("compilations_repeated", 1)
			if rep == 0 && p.Kind == "overload" {
				ctx.Count("operator_overload_programs", 1)
			}
			if co.Panicked {
				return &Finding{Class: "C09/compile-panic", Detail: "Compile panicked: " + co.PanicVal + "\nsource: " + src}
			}
			if after := Snapshot(sample); after != before {
				return &Finding{Class: "C09/sample-environment-modified", Detail: fmt.Sprintf("Compile changed the sample environment given to Env()\nsource: %s\n before: %s\n after:  %s", src, before, after)}
			}
			dump := "rejected: " + co.ErrText()
			if !co.Failed() {
				dump = Snapshot(pr)
				if rep == 0 {
					if len(pr.Constants) >= 2 {
						ctx.Nontrivial("compile|" + src + fmt.Sprint(p.Optimize, sc.ConstExpr, sc.Rep))
					}
					if strings.Contains(dump, "map[") && strings.Contains(dump, "struct {}") {
						ctx.Count("programs_with_map_constants", 1)
					}
				}
			}
			j := strings.Join(journalStrings(w0.Journal), ";")
			if rep == 0 && !co.Failed() {
				held = append(held, heldProg{pr, dump, src})
			}
			if rep == 0 {
				first, firstJ = dump, j
				ctx.Logf("program %d %q optimize=%v constexpr=%v: dump %s compile-journal [%s]", i, src, p.Optimize, sc.ConstExpr, Digest(dump), j)
				if sc.CrossProcess != nil && i < len(sc.CrossProcess) && sc.CrossProcess[i] != "" {
					mine := Digest(dump)
					if co.Failed() {
						mine = "rejected:" + Digest(co.ErrText())
					}
					if mine != sc.CrossProcess[i] {
						return &Finding{Class: "C09/program-differs-across-processes", Detail: fmt.Sprintf("compiling the same source with the same options in another process gave a different program (digest %s there, %s here)\nsource: %s", sc.CrossProcess[i], mine, src)}
					}
				}
				continue
			}
			if dump != first {
				return &Finding{Class: "C09/program-differs-between-compilations", Detail: fmt.Sprintf("compilation %d of the same source with the same options differs from compilation 0\nsource: %s\n first: %s\n now:   %s", rep, src, first, dump)}
			}
			if j != firstJ {
				return &Finding{Class: "C09/compile-journal-differs", Detail: fmt.Sprintf("compilation %d called environment functions differently\nsource: %s\n first: %s\n now:   %s", rep, src, firstJ, j)}
			}
		}
	}
	// The same source under different options, in turn: what a compilation yields
	// must depend on ITS options only, not on the options of an earlier compilation
	// of the same text.
	for _, p := range sc.Progs {
		src := p.Src()
		variant := func(optimize, overload bool) string {
			w0 := NewWorld(false, nil, nil)
			sample := BuildEnv(w0, sc.Envs[0]).AsRep(sc.Rep)
			opts := []expr.Option{expr.Env(sample)}
			if !optimize {
				opts = append(opts, expr.Optimize(false))
			}
			if overload {
				opts = append(opts, expr.Operator("**", "OpA", "OpB"), expr.Operator("+", "OpB"))
			}
			pr, co := sutCompile(src, opts...)
			ctx.Eval()
			if co.Failed() {
				return "rejected: " + firstLine(co.ErrText())
			}
			return Snapshot(pr)
		}
		plainOff := variant(false, false)
		plainOn := variant(true, false)
		variant(true, true)
		// ... nor on the value of the process-wide memory budget at compile time
		savedBudget := vm.MemoryBudget
		vm.MemoryBudget = 3
		lowOn := variant(true, false)
		vm.MemoryBudget = savedBudget
		if lowOn != plainOn {
			return &Finding{Class: "C09/compile-depends-on-memory-budget", Detail: fmt.Sprintf("the same source and options compile to a different program when vm.MemoryBudget has another value at compile time\nsource: %s\n default budget: %s\n budget 3:       %s", src, plainOn, lowOn)}
		}
		ctx.Count("option_toggle_recompilations", 1)
		if again := variant(false, false); again != plainOff {
			return &Finding{Class: "C09/compile-depends-on-earlier-options", Detail: fmt.Sprintf("compiling with Optimize(false) gives a different program after the same source was compiled with other options (optimised, overloaded operators)\nsource: %s\n first: %s\n later: %s", src, plainOff, again)}
		}
	}
	// One Env option VALUE reused: what a strict compilation accepts must not
	// depend on a lenient compilation (AllowUndefinedVariables) made with the same
	// option value in between.
	{
		w0 := NewWorld(false, nil, nil)
		sample := BuildEnv(w0, sc.Envs[0]).AsRep(sc.Rep)
		envOpt := expr.Env(sample)
		verdict := func(src string, lenient bool) string {
			opts := []expr.Option{envOpt}
			if lenient {
				opts = append(opts, expr.AllowUndefinedVariables())
			}
			p, co := sutCompile(src, opts...)
			ctx.Eval()
			if co.Panicked {
				return "panic: " + co.PanicVal
			}
			if co.Err != nil {
				return "rejected: " + firstLine(co.ErrText())
			}
			return "accepted: " + Digest(Snapshot(p))
		}
		for _, src := range []string{"Undef1 == nil", "A + Undef2", "Undef3(1)", "A"} {
			before := verdict(src, false)
			verdict(src, true)
			verdict("Undef1 == Undef2 or Undef3(A) == 1", true)
			after := verdict(src, false)
			ctx.Count("shared_option_recompilations", 1)
			if before != after {
				return &Finding{Class: "C09/compile-depends-on-earlier-compile", Detail: fmt.Sprintf("the same strict compilation with the same (shared) Env option value changed after a lenient compilation with that option value\nsource: %s\n before: %s\n after:  %s", src, before, after)}
			}
		}
	}
	for _, h := range held {
		ctx.Count("held_programs_rechecked", 1)
		if now := Snapshot(h.prog); now != h.dump {
			return &Finding{Class: "C09/program-modified-by-later-compile", Detail: fmt.Sprintf("a compiled program changed while OTHER sources were being compiled\nsource: %s\n when compiled: %s\n now:           %s", h.src, h.dump, now)}
		}
	}
	// (a) and (b)
	f := runVMHistory(sc, ctx, "C09")
	if f != nil {
		return f
	}
	for _, h := range held {
		if now := Snapshot(h.prog); now != h.dump {
			return &Finding{Class: "C09/program-modified-by-later-compile", Detail: fmt.Sprintf("a compiled program changed while other programs were being compiled and run\nsource: %s\n when compiled: %s\n now:           %s", h.src, h.dump, now)}
		}
	}
	return nil
}

func (c09Engine) Shrinks(sci interface{}) []interface{} {
	sc := sci.(*VMScenario)
	out := vmShrinks(sc)
	// drop programs no op uses
	for pi := range sc.Progs {
		used := false
		for _, op := range sc.Ops {
			if op.Prog == pi || (op.Grid && op.Probe == pi) {
				used = true
			}
		}
		if !used && len(sc.Progs) > 1 {
			c := sc.clone()
			c.Progs = append(c.Progs[:pi:pi], c.Progs[pi+1:]...)
			if c.CrossProcess != nil && pi < len(c.CrossProcess) {
				c.CrossProcess = append(c.CrossProcess[:pi:pi], c.CrossProcess[pi+1:]...)
			}
			for i := range c.Ops {
				if c.Ops[i].Prog > pi {
					c.Ops[i].Prog--
				}
				if c.Ops[i].Probe > pi {
					c.Ops[i].Probe--
				}
			}
			out = append(out, c)
		}
	}
	if len(sc.Ops) > 0 {
		c := sc.clone()
		c.Ops = nil
		out = append([]interface{}{c}, out...)
	}
	return out
}

var repDependentProbe = map[string]bool{"PtrM(1)": true, "PtrM(A) + 1": true, "index + 1": true, "not info": true}

// dumpMain: verifsim dump <prop> <tier> <seed> <count> — prints one line per
// scenario with the digests of its compiled programs (used across processes).
func dumpMain(args []string) int {
	if len(args) < 4 {
		usage()
	}
	tier := args[1]
	seed, _ := strconv.ParseUint(args[2], 10, 64)
	n, _ := strconv.Atoi(args[3])
	from := 0
	if len(args) > 4 { // dump <prop> <tier> <seed> <to> <from>
		from, _ = strconv.Atoi(args[4])
	}
	e := c09Engine{}
	for i := from; i < n; i++ {
		sc := e.Gen(DeriveSeed(seed, "C09", i), i, tier).(*VMScenario)
		fmt.Printf("%d %s\n", i, strings.Join(progDigests(sc), " "))
	}
	return 0
}

// PostBatch: fresh processes with the same seed must compute the same programs.
func (c09Engine) PostBatch(tier string, seed uint64, ctx *RunCtx) []*Violation {
	procs, n := 8, 160
	if tier == "thorough" {
		procs, n = 32, 600
	}
	self, _ := os.Executable()
	type res struct {
		out string
		err error
	}
	ch := make([]chan res, procs)
	for p := 0; p < procs; p++ {
		ch[p] = make(chan res, 1)
		go func(p int) {
			cmd := exec.Command(self, "dump", "C09", tier, strconv.FormatUint(seed, 10), strconv.Itoa(n))
			cmd.Env = append(os.Environ(), "GOMAXPROCS="+[]string{"1", "4", "16"}[p%3])
			b, err := cmd.Output()
			ch[p] <- res{string(b), err}
		}(p)
	}
	var outs []string
	for p := 0; p < procs; p++ {
		r := <-ch[p]
		if r.err != nil {
			infra("C09 cross-process dump failed: %v", r.err)
		}
		outs = append(outs, r.out)
	}
	ctx.Counters["processes_compared"] += procs
	ctx.Evals += procs * n
	var viols []*Violation
	ref := strings.Split(outs[0], "\n")
	// Process history: the batch processes compile scenarios 0..n-1 one after the
	// other. A scenario compiled ALONE in a fresh process must give the same
	// programs (nothing an earlier compilation left behind may matter).
	singles := 24
	if tier == "thorough" {
		singles = 120
	}
	type sres struct {
		i   int
		out string
		err error
	}
	sch := make(chan sres, singles)
	sem := make(chan struct{}, 16)
	// prefer scenarios with a representation-dependent probe (what compiles there must
	// depend on the representation alone), then spread over the batch; never scenario 0
	var picks []int
	seen := map[int]bool{}
	for i := 1; i < n && len(picks) < singles*2/3; i++ {
		sc := c09Engine{}.Gen(DeriveSeed(seed, "C09", i), i, tier).(*VMScenario)
		for _, p := range sc.Progs {
			if p.Tree == nil && repDependentProbe[p.Raw] && !seen[i] {
				seen[i] = true
				picks = append(picks, i)
			}
		}
	}
	for k := 0; len(picks) < singles && k < 4*singles; k++ {
		i := 1 + (k*(n-1))/(4*singles)
		if !seen[i] {
			seen[i] = true
			picks = append(picks, i)
		}
	}
	singles = len(picks)
	for _, i := range picks {
		go func(i int) {
			sem <- struct{}{}
			defer func() { <-sem }()
			cmd := exec.Command(self, "dump", "C09", tier, strconv.FormatUint(seed, 10), strconv.Itoa(i+1), strconv.Itoa(i))
			b, err := cmd.Output()
			sch <- sres{i, strings.TrimSpace(string(b)), err}
		}(i)
	}
	for k := 0; k < singles; k++ {
		r := <-sch
		if r.err != nil {
			infra("C09 single-scenario dump failed: %v", r.err)
		}
		ctx.Counters["single_scenario_processes"]++
		ctx.Evals++
		if r.i < len(ref) && r.out != ref[r.i] && len(viols) == 0 {
			e := c09Engine{}
			sc := e.Gen(DeriveSeed(seed, "C09", r.i), r.i, tier).(*VMScenario)
			f := strings.Fields(r.out)
			if len(f) > 1 {
				sc.CrossProcess = f[1:]
			}
			sc.Ops = nil
			viols = append(viols, &Violation{Property: "C09", Engine: e.Name(), Class: "C09/program-depends-on-process-history",
				Detail: fmt.Sprintf("scenario %d compiled alone in a fresh process gives program digests %q; compiled after scenarios 0..%d in one process it gives %q (same sources, same options)", r.i, r.out, r.i-1, ref[r.i]),
				Seed:   seed, Index: r.i, Scenario: mustJSON(sc), Log: []string{"alone: " + r.out, "after history: " + ref[r.i]}, LogDigest: Digest(r.out + ref[r.i])})
		}
	}
	for p := 1; p < procs && len(viols) == 0; p++ {
		lines := strings.Split(outs[p], "\n")
		for li := range ref {
			if li < len(lines) && lines[li] == ref[li] {
				continue
			}
			// scenario li differs between process 0 and process p
			e := c09Engine{}
			sc := e.Gen(DeriveSeed(seed, "C09", li), li, tier).(*VMScenario)
			f := strings.Fields(ref[li])
			if len(f) > 1 {
				sc.CrossProcess = f[1:]
			}
			sc.Ops = nil
			other := ""
			if li < len(lines) {
				other = lines[li]
			}
			viols = append(viols, &Violation{Property: "C09", Engine: e.Name(), Class: "C09/program-differs-across-processes",
				Detail: fmt.Sprintf("scenario %d: process 0 computed program digests %q, process %d computed %q (same seed, same sources, same options)", li, ref[li], p, other),
				Seed:   seed, Index: li, Scenario: mustJSON(sc), Log: []string{"process 0: " + ref[li], fmt.Sprintf("process %d: %s", p, other)}, LogDigest: Digest(ref[li] + other)})
			break
		}
	}
	return viols
}
