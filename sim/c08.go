package main

import (
	"encoding/json"
	"fmt"
	"strings"
	"sync"

	"github.com/antonmedv/expr"
	"github.com/antonmedv/expr/ast"
	"github.com/antonmedv/expr/vm"
)

// ---------------------------------------------------------------------------
// C08 (schedsim): N logical tasks share compiled programs, one read-only
// environment value, one sample environment and the option values given to
// Compile. A seeded scheduler decides every interleaving at the granularity
// of one VM instruction / one environment-function entry or exit / one
// visited AST node (sched.go). Oracles: every op returns what it returns
// alone; every op executes exactly as many instructions as alone; shared
// values are never modified; the race detector is silent; all tasks finish.
// ---------------------------------------------------------------------------

type SchedOp struct {
	Kind string `json:"kind"` // run | vmrun | compile
	Prog int    `json:"prog"`
}

type SchedScenario struct {
	Seed        uint64      `json:"seed"`
	Index       int         `json:"index"`
	Rep         string      `json:"env_representation"`
	Progs       []ProgSpec  `json:"programs"`
	Env         *EnvData    `json:"env"`
	BudgetSlack int         `json:"budget_slack"` // -1: default budget; k>=0: (measured largest sequential need)+k
	ConstExpr   bool        `json:"const_expr_options"`
	Policy      string      `json:"policy"`
	Param       int         `json:"policy_param"`
	Tasks       [][]SchedOp `json:"tasks"`
	Schedule    []Seg       `json:"schedule,omitempty"` // explicit schedule (replay / shrinking); overrides the policy while it lasts
	// Cold: the scenario is executed in a fresh process and nothing of the
	// library runs before the tasks start except the compilation of the shared
	// programs; the sequential baselines are taken AFTER the tasks finished.
	// Process-global state (caches, lazily initialised tables) is then first
	// touched under the scheduler. Uses the default budget.
	Cold bool `json:"cold_process,omitempty"`
	// ColdCompileOnly (with Cold): every op is a Compile and NOTHING is compiled
	// before the tasks start - the first Compile calls of the process happen
	// under the scheduler.
	ColdCompileOnly bool `json:"cold_compile_only,omitempty"`
	// Lenient: the shared options include AllowUndefinedVariables (and one
	// program mentions names the environment does not have).
	Lenient bool `json:"allow_undefined,omitempty"`
}

// opNames backs an Operator option built from a sub-slice with spare capacity.
func opNameSlice() []string { return []string{"OpA", "OpB", "Nope"} }

func g0raw(r *RNG) string {
	return r.Pick([]string{"Undef1 == nil or P", "[A, Undef2]", "Undef1 == Undef2", "P ? A : Undef3"})
}

func (sc *SchedScenario) clone() *SchedScenario {
	b, _ := json.Marshal(sc)
	var c SchedScenario
	json.Unmarshal(b, &c)
	return &c
}

type c08Engine struct{}

func init() { register(c08Engine{}) }

func (c08Engine) Property() string { return "C08" }
func (c08Engine) Name() string     { return "schedsim/shared-program-schedules" }
func (c08Engine) Level() string    { return "exploration" }
func (c08Engine) Count(tier string) int {
	if tier == "thorough" {
		return 40000
	}
	return 1200
}
func (c08Engine) Rule() string {
	return "Scenario i from H(VERIF_SEED,'C08',i): 2-5 shared programs (built to hold every constant kind: regexps, folded int/string slices, membership lookup maps, constant ranges, call descriptors, typed integer constants), one shared read-only environment (struct/pointer/map) and sample environment, shared option values, a memory budget just above the largest measured sequential need (or the default), 2-6 tasks x 1-4 ops (expr.Run on a shared program | (*VM).Run on a task-private reused VM | expr.Compile with the shared options and a shared stateless patch visitor), and a scheduling policy (sequential control | uniform per yield | geometric bursts | PCT priorities with 1-3 change points). Tasks are real goroutines released one at a time at every VM instruction (verif hook), environment-function entry/exit and visited AST node; the binary is built with -race and the baton carries no happens-before edge. One evaluation = one scenario executed under its schedule. Non-trivial = at least one context switch fell strictly inside an op; distinct = distinct schedule signatures (hash of the (task, yield-point kind) sequence at context switches together with the program set)."
}
func (c08Engine) Assumptions() []string {
	return []string{
		"tasks are serialised by the simulator: weak-memory reorderings are not explored; the race detector's happens-before analysis stands in for them",
		"the race detector keeps a bounded access history per memory word; scenarios are short (<= 6 tasks x 4 ops) so that conflicting accesses are not evicted",
		"environment functions used here are pure and touch no shared harness state; vm.MemoryBudget is set before the tasks start and never written while they run",
		"sampling of schedules: a clean batch is evidence, not proof",
	}
}
func (c08Engine) Required(tier string) []string {
	req := []string{"hook_calls", "context_switches", "switches_inside_op", "ops_run", "ops_vmrun", "ops_compile", "policy/" + PolUniform, "policy/" + PolBurst, "policy/" + PolPCT, "policy/" + PolSeq, "snapshots_during_run", "tight_budget_scenarios", "cold_process_scenarios", "untyped_programs", "budget_fault_scenarios", "yields_in_env_function", "yields_in_visitor"}
	if raceEnabled {
		req = append(req, "race_detector_active")
	}
	return req
}
func (c08Engine) Decode(raw []byte) (interface{}, error) {
	var sc SchedScenario
	err := json.Unmarshal(raw, &sc)
	return &sc, err
}

// FreshProcess: race reports are de-duplicated per process, so scenarios whose
// violation is a race report must be re-executed in a fresh process.
func (c08Engine) FreshProcess(class string) bool { return raceEnabled }

// ColdStart: scenarios that must run in a process where the library has not
// been used yet.
func (c08Engine) ColdStart(sci interface{}) bool { return sci.(*SchedScenario).Cold }

// genConstHeavy builds a program whose compiled form holds constants of many kinds.
func genConstHeavy(r *RNG) *N {
	part := func() *N {
		switch r.Intn(14) {
		case 0:
			return nBin("matches", nID(r.Pick([]string{"S", "T"})), nStr(r.Pick(rePool))) // *regexp.Regexp constant
		case 1:
			return nBin(r.Pick([]string{"in", "not in"}), nID(r.Pick(intMembers)), nArr(nInt(r.Range(-3, 3)), nInt(r.Range(0, 6)), nInt(7))) // map[int]struct{} lookup
		case 2:
			return nBin("in", nID(r.Pick([]string{"S", "T"})), nArr(nStr("a"), nStr(r.Pick(strPool)), nStr("zz"))) // map[string]struct{} lookup
		case 3:
			return nBi("filter", nArr(nInt(3), nInt(1), nInt(2), nInt(r.Range(0, 9))), nBin(">", nPtr(), nID("C"))) // folded []int
		case 4:
			return nBi("map", nBin("..", nInt(1), nInt(r.Range(2, 6))), nBin("*", nPtr(), nID("A"))) // constant range
		case 5:
			return nBin("+", nMeth(nID("O"), "Get", false, nInt(r.Range(0, 4))), nCall("F1", nInt(r.Range(0, 5)))) // call descriptors
		case 6:
			return nCall("C64", nInt(r.Range(1, 9))) // typed integer constant
		case 7:
			return nCall("Va", nInt(1), nID("B")) // fast call
		case 8:
			return nMap(nPair("k1", nID("A")), nPair("k2", nArr(nID("A"), nID("B"))))
		case 9:
			return nLen(nBi("filter", nID("Xs"), nBin("in", nPtr(), nArr(nInt(1), nInt(2), nInt(3), nInt(5)))))
		case 10:
			return nBi("count", nID("Ss"), nBin("in", nPtr(), nArr(nStr("a"), nStr("ab"), nStr("é"))))
		case 12:
			return nArr(nCall("Tup", nInt(r.Range(0, 5)), nID("A")), nCall("Tup", nID("B"), nInt(2))) // fast calls keeping their argument slices
		case 11:
			// run-time patterns that differ between programs
			switch r.Intn(3) {
			case 0:
				return nBin("matches", nID("S"), nID("Re"))
			case 1:
				return nBin("matches", nID("T"), nBin("+", nStr("^"), nID("S")))
			default:
				return nBin("matches", nBin("+", nID("S"), nID("T")), nBin("+", nID("T"), nStr("$")))
			}
		default:
			return nBin("+", nStr(r.Pick(strPool)), nCall("S1", nID("S")))
		}
	}
	k := r.Range(2, 4)
	parts := make([]*N, k)
	for i := range parts {
		parts[i] = part()
	}
	return nArr(parts...)
}

func (c08Engine) Gen(seed uint64, idx int, tier string) interface{} {
	r := NewRNG(seed)
	sc := &SchedScenario{Seed: seed, Index: idx}
	sc.Rep = []string{RepStruct, RepPtr, RepMap}[r.Intn(3)]
	sc.Env = GenEnvData(r)
	sc.Env.M = r.Range(2, 12)
	np := r.Range(2, 5)
	for i := 0; i < np; i++ {
		g0 := r.Fork()
		var ps ProgSpec
		ps.Optimize = !r.Chance(1, 5)
		switch {
		case i == 0 || r.Chance(1, 3):
			ps.Kind = "const-heavy"
			ps.Tree = genConstHeavy(g0)
		case r.Chance(1, 3):
			ps.Kind = "alloc"
			ps.Tree = genAllocProgram(g0)
		default:
			ps.Kind = "cheap"
			cfg := GenCfg{Budget: g0.Range(4, 24), Calls: true, Failing: true, Strings: true, Closures: true, Maps: true, Objects: true, ShortPred: true, NilSafe: true, SliceCall: true, ConstFns: true}
			g := NewGen(g0, cfg)
			ps.Tree = genRoot(g, g0)
		}
		ps.NoEnv = r.Chance(1, 5)
		ps.Source = ps.Src()
		sc.Progs = append(sc.Progs, ps)
	}
	sc.BudgetSlack = -1
	if r.Chance(3, 5) {
		sc.BudgetSlack = r.Intn(3)
	} else if r.Chance(1, 3) {
		sc.BudgetSlack = -2
	}
	if r.Chance(1, 5) {
		// a feature probe (skipped when this version of the library rejects it): operations
		// that would write into shared slices if they shared memory with their inputs
		ps := ProgSpec{Kind: "probe", Raw: r.Pick([]string{"Xs[:1] + Ys", "Xs[:1] + Xs[1:]", "[3, 1, 2, 9][:A % 3] + Ys", "Ss[:1] + Ss", "O.Xs[:1] + Xs", "map(Xs[:2], {#}) + Xs", "PromV", "PromV + A", "[A, PromV]"}), Optimize: true}
		ps.Source = ps.Raw
		sc.Progs[r.Intn(len(sc.Progs))] = ps
	}
	sc.Lenient = r.Chance(1, 4)
	if sc.Lenient {
		// a program that mentions names the environment does not have
		ps := ProgSpec{Kind: "unknown-names", Raw: g0raw(r), Optimize: true}
		ps.Source = ps.Raw
		sc.Progs[r.Intn(len(sc.Progs))] = ps
	}
	sc.ConstExpr = r.Chance(1, 3)
	if r.Chance(1, 4) {
		sc.Cold = true
		sc.BudgetSlack = -1
		sc.ColdCompileOnly = r.Chance(1, 3)
	}
	switch x := r.Intn(20); {
	case x == 0:
		sc.Policy = PolSeq
	case x < 7:
		sc.Policy = PolUniform
	case x < 14:
		sc.Policy = PolBurst
		sc.Param = []int{2, 4, 8, 16, 40}[r.Intn(5)]
	default:
		sc.Policy = PolPCT
		sc.Param = r.Range(1, 3)
	}
	nt := r.Range(2, 6)
	for t := 0; t < nt; t++ {
		no := r.Range(1, 4)
		ops := make([]SchedOp, no)
		for j := range ops {
			kind := "run"
			switch r.Intn(4) {
			case 0:
				kind = "vmrun"
			case 1:
				kind = "compile"
			}
			ops[j] = SchedOp{Kind: kind, Prog: r.Intn(np)}
		}
		sc.Tasks = append(sc.Tasks, ops)
	}
	if sc.ColdCompileOnly {
		for t := range sc.Tasks {
			for j := range sc.Tasks[t] {
				sc.Tasks[t][j].Kind = "compile"
			}
		}
		for i := range sc.Progs {
			sc.Progs[i].NoEnv = false
		}
	}
	// Bias: make several tasks run the same program at the same time.
	if r.Chance(1, 2) {
		p := r.Intn(np)
		for t := range sc.Tasks {
			sc.Tasks[t][0].Prog = p
		}
	}
	return sc
}

// yieldVisitor is the stateless patch visitor shared by all concurrent Compile
// calls; every visited node is a scheduling point.
type yieldVisitor struct{}

func (yieldVisitor) Enter(*ast.Node) { schedPoint('v') }
func (yieldVisitor) Exit(*ast.Node)  { schedPoint('v') }

func schedPoint(tag byte) {
	if s := S; s != nil {
		s.notePoint(tag)
		s.yield(tag)
	}
}

//go:norace
func (s *Sched) notePoint(tag byte) {
	if s.cur == nil {
		return
	}
	switch tag {
	case 'v':
		s.visitorYields++
	case 'e':
		s.envYields++
	}
}

//go:norace
func (t *schedTask) resetSteps() { t.steps = 0; t.opYield0 = t.yields; t.opSwitch0 = S.switches }

//go:norace
func (t *schedTask) opStats() (steps int, switchesInside int) {
	return t.steps, S.switches - t.opSwitch0
}

type opResult struct {
	key      string
	steps    int
	switches int
	aborted  bool
}

// schedExec performs one op. It touches no harness state shared between tasks.
func schedExec(kind string, prog *vm.Program, machine *vm.VM, src string, opts []expr.Option, env interface{}) (key string) {
	defer func() {
		if r := recover(); r != nil {
			key = "panic(" + fmt.Sprint(r) + ")"
		}
	}()
	res := func(out interface{}, err error) string {
		if err != nil {
			return "err(" + err.Error() + ")|" + Canon(out)
		}
		return "ok(" + Canon(out) + ")"
	}
	switch kind {
	case "run":
		return res(expr.Run(prog, env))
	case "vmrun":
		return res(machine.Run(prog, env))
	case "compile":
		p, err := expr.Compile(src, opts...)
		if err != nil {
			return "compile-err(" + err.Error() + ")"
		}
		return "prog(" + Digest(Snapshot(p)) + ")|" + res(expr.Run(p, env))
	}
	return "unknown-op"
}

func (c08Engine) Run(sci interface{}, ctx *RunCtx) *Finding {
	f, _ := runSched(sci.(*SchedScenario), ctx)
	return f
}

// runSched executes the scenario and returns the finding and the schedule that
// was actually followed.
func runSched(sc *SchedScenario, ctx *RunCtx) (*Finding, []Seg) {
	saved := vm.MemoryBudget
	defer func() { vm.MemoryBudget = saved }()
	raceLogDelta() // discard anything older than this scenario

	w := &World{Quiet: true, Phase: "run"}
	w.Yield = func(string) { schedPoint('e') }
	envShared := BuildEnv(w, sc.Env).AsRep(sc.Rep)
	sample := BuildEnv(w, sc.Env).AsRep(sc.Rep)
	envOpt := expr.Env(sample)
	patchOpt := expr.Patch(yieldVisitor{})
	lenientOpt := expr.AllowUndefinedVariables()
	// two Operator options for the same operator; the first is built from a
	// sub-slice whose backing array has room (and belongs to the caller)
	opNames := opNameSlice()
	opNamesSnap := fmt.Sprint(opNames)
	opA := expr.Operator("**", opNames[:1]...)
	opB := expr.Operator("**", "OpB")
	optsOf := make([][]expr.Option, len(sc.Progs))
	typedOpts := func(p ProgSpec) []expr.Option {
		o := []expr.Option{envOpt, patchOpt}
		if !p.Optimize {
			o = append(o, expr.Optimize(false))
		}
		if sc.ConstExpr {
			o = append(o, expr.ConstExpr("CI"), expr.ConstExpr("CS"), expr.ConstExpr("CB"))
		}
		if sc.Lenient {
			o = append(o, lenientOpt)
		}
		if sc.ConstExpr {
			o = append(o, opA, opB)
		}
		return o
	}
	for i, p := range sc.Progs {
		o := typedOpts(p)
		if p.NoEnv {
			o = []expr.Option{patchOpt}
			if !p.Optimize {
				o = append(o, expr.Optimize(false))
			}
			if _, co := sutCompile(p.Src(), o...); co.Failed() {
				o = typedOpts(p) // the untyped compiler does not take this program
			} else {
				ctx.Count("untyped_programs", 1)
			}
		}
		optsOf[i] = o
	}

	// the step bound: generous multiple of the sequential cost, fixed below
	s := newSched(len(sc.Tasks), sc.Policy, sc.Param, NewRNG(sc.Seed^0x5CED5CED5CED5CED), sc.Schedule, 0)
	defer s.close()
	S = s
	defer func() { S = nil }()

	// Two identical pools: baseProgs is used for the sequential baselines;
	// progs is what the tasks share and has never been run before the tasks
	// start, so that anything a program initialises lazily on first use
	// happens under the scheduler, not before it.
	progs := make([]*vm.Program, len(sc.Progs))
	baseProgs := make([]*vm.Program, len(sc.Progs))
	srcs := make([]string, len(sc.Progs))
	coldCompile := sc.Cold && sc.ColdCompileOnly
	for i, p := range sc.Progs {
		srcs[i] = p.Src()
		if coldCompile {
			continue // nothing is compiled before the tasks start
		}
		for _, pool := range [][]*vm.Program{baseProgs, progs} {
			pr, co := sutCompile(srcs[i], optsOf[i]...)
			if co.Failed() && p.Tree == nil && !co.Panicked {
				// a raw program this configuration does not accept: replace it by a trivial one
				srcs[i] = "A"
				pr, co = sutCompile(srcs[i], optsOf[i]...)
			}
			if co.Failed() {
				return &Finding{Class: "C08/compile-rejected", Detail: "Compile rejected a well-typed program of the fragment: " + co.ErrText() + "\nsource: " + srcs[i]}, nil
			}
			pool[i] = pr
		}
	}
	progSnap := make([]string, len(progs))
	for i, p := range progs {
		progSnap[i] = Snapshot(p)
	}

	// Sequential baselines, and the largest sequential memory need (measured).
	type base struct {
		key   string
		steps int
	}
	baselineSrc := func(kind string, pi int, src string) base {
		s.takeMainSteps()
		k := schedExec(kind, baseProgs[pi], &vm.VM{}, src, optsOf[pi], envShared)
		return base{k, s.takeMainSteps()}
	}
	baseline := func(kind string, pi int) base { return baselineSrc(kind, pi, srcs[pi]) }
	// opSrc: a Compile op on the program that mentions unknown names compiles a
	// variant with names no earlier compilation (not even the pool's) has seen, so
	// that whatever a lenient compilation records about a new name happens under
	// the scheduler.
	opSrc := func(ti, oi int, op SchedOp) string {
		if op.Kind == "compile" && sc.Progs[op.Prog].Kind == "unknown-names" {
			return strings.ReplaceAll(srcs[op.Prog], "Undef", fmt.Sprintf("UndefT%dO%dx", ti, oi))
		}
		return srcs[op.Prog]
	}
	baseKey := func(ti, oi int, op SchedOp) string {
		return fmt.Sprintf("%s/%d/%s", op.Kind, op.Prog, Digest(opSrc(ti, oi, op)))
	}
	vm.MemoryBudget = defaultBudget
	need := 1
	if !sc.Cold {
		for pi := range progs {
			ref := baseline("run", pi)
			lo, hi := 1, 4096 // smallest budget giving the same outcome as the default budget
			vm.MemoryBudget = hi
			if baseline("run", pi).key != ref.key {
				hi = defaultBudget
			}
			for lo < hi {
				mid := (lo + hi) / 2
				vm.MemoryBudget = mid
				if baseline("run", pi).key == ref.key {
					hi = mid
				} else {
					lo = mid + 1
				}
			}
			if lo > need {
				need = lo
			}
			vm.MemoryBudget = defaultBudget
		}
	}
	budget := defaultBudget
	if sc.BudgetSlack >= 0 && !sc.Cold {
		budget = need + sc.BudgetSlack
		ctx.Count("tight_budget_scenarios", 1)
	}
	if sc.BudgetSlack == -2 && !sc.Cold && need > 2 {
		// below the largest need: some ops fail by the budget, concurrently
		budget = need - 1 - int(sc.Seed%3)
		if budget < 1 {
			budget = 1
		}
		ctx.Count("budget_fault_scenarios", 1)
	}
	vm.MemoryBudget = budget

	bases := map[string]base{}
	totalSteps := 0
	takeBaselines := func() {
		for ti, ops := range sc.Tasks {
			for oi, op := range ops {
				k := baseKey(ti, oi, op)
				if _, ok := bases[k]; !ok {
					bases[k] = baselineSrc(op.Kind, op.Prog, opSrc(ti, oi, op))
				}
				totalSteps += bases[k].steps + 8
			}
		}
	}
	if sc.Cold {
		ctx.Count("cold_process_scenarios", 1)
		totalSteps = 3000 // nothing has run yet: a fixed generous estimate
	} else {
		takeBaselines()
	}
	s.stepBound = 10000 + 1000*totalSteps
	if s.policy == PolPCT && len(sc.Schedule) == 0 {
		// change points over the estimated number of yield points
		est := totalSteps + 1
		d := sc.Param
		if d < 1 {
			d = 1
		}
		cr := NewRNG(sc.Seed ^ 0xC4A46E5)
		pts := make([]int, d)
		for i := range pts {
			pts[i] = 1 + cr.Intn(est)
		}
		for i := range pts { // tiny sort
			for j := i + 1; j < len(pts); j++ {
				if pts[j] < pts[i] {
					pts[i], pts[j] = pts[j], pts[i]
				}
			}
		}
		s.change = pts
	}

	envSnap := Snapshot(envShared)
	sampleSnap := Snapshot(sample)
	snapFail := make([]string, len(sc.Tasks))
	snapCount := make([]int, len(sc.Tasks))
	checkSnaps := func() string {
		for i, p := range progs {
			if Snapshot(p) != progSnap[i] {
				return fmt.Sprintf("shared program %d (%s) was modified", i, srcs[i])
			}
		}
		if Snapshot(envShared) != envSnap {
			return "the shared environment value was modified"
		}
		if Snapshot(sample) != sampleSnap {
			return "the sample environment given to Compile was modified"
		}
		return ""
	}
	s.snapEvery = 64
	s.onSnap = func(t *schedTask) {
		snapCount[t.id]++
		if snapFail[t.id] == "" {
			snapFail[t.id] = checkSnaps()
		}
	}

	results := make([][]opResult, len(sc.Tasks))
	var wg sync.WaitGroup
	for ti := range sc.Tasks {
		results[ti] = make([]opResult, len(sc.Tasks[ti]))
		wg.Add(1)
		opSrcs := make([]string, len(sc.Tasks[ti]))
		for oi, op := range sc.Tasks[ti] {
			opSrcs[oi] = opSrc(ti, oi, op)
		}
		go func(t *schedTask, ops []SchedOp, res []opResult) {
			defer wg.Done()
			machine := &vm.VM{}
			t.park()
			for i, op := range ops {
				s.yield('s')
				t.resetSteps()
				key := schedExec(op.Kind, progs[op.Prog], machine, opSrcs[i], optsOf[op.Prog], envShared)
				st, sw := t.opStats()
				res[i] = opResult{key: key, steps: st, switches: sw, aborted: t.abort}
				s.yield('f')
			}
			s.finish(t)
		}(s.tasks[ti], sc.Tasks[ti], results[ti])
	}
	s.start()
	wg.Wait()
	ctx.Eval()
	if sc.Cold {
		takeBaselines() // after the fact: S.cur is nil again, yields are no-ops
	}

	rec := append([]Seg{}, s.rec...)
	ctx.Count("policy/"+sc.Policy, 1)
	ctx.Count("context_switches", s.switches)
	ctx.Count("yield_points", s.yieldNo)
	ctx.Count("yields_in_env_function", s.envYields)
	ctx.Count("yields_in_visitor", s.visitorYields)
	for _, c := range snapCount {
		ctx.Count("snapshots_during_run", c)
	}
	inside := 0
	for ti, ops := range sc.Tasks {
		for i, op := range ops {
			ctx.Count("ops_"+op.Kind, 1)
			inside += results[ti][i].switches
		}
	}
	ctx.Count("switches_inside_op", inside)
	if raceEnabled {
		ctx.Count("race_detector_active", 1)
	}
	progKey := ""
	for _, src := range srcs {
		progKey += src + "\n"
	}
	if inside > 0 {
		ctx.Nontrivial(fmt.Sprintf("%x|%s", s.sig, Digest(progKey)))
	}
	recShown := rec
	if len(recShown) > 40 {
		recShown = recShown[:40]
	}
	ctx.Logf("policy=%s param=%d budget=%d tasks=%d switches=%d yields=%d schedule-digest=%s first-segments=%v", sc.Policy, sc.Param, budget, len(sc.Tasks), s.switches, s.yieldNo, Digest(fmt.Sprint(rec)), recShown)
	for ti, ops := range sc.Tasks {
		for i, op := range ops {
			r := results[ti][i]
			ctx.Logf("task %d op %d %s prog %d: %s steps=%d switches-inside=%d", ti, i, op.Kind, op.Prog, firstLine(r.key), r.steps, r.switches)
		}
	}
	hookCalls += s.hookCalls

	detailHead := func() string {
		return fmt.Sprintf("policy=%s param=%d budget=%d context-switches=%d\nprograms:\n%s", sc.Policy, sc.Param, budget, s.switches, progKey)
	}
	// Oracle 4 first: a race report names the root cause most precisely.
	if rep := raceLogDelta(); rep != "" {
		site := raceSite(rep)
		if site == "" {
			infra("the race detector reported a race with no frame in the library (harness defect):\n%s", rep)
		}
		return &Finding{Class: "C08/data-race/" + site, Detail: "the race detector reported an unsynchronised conflicting access between two tasks (which never overlapped in real time)\n" + detailHead() + "\n" + rep}, rec
	}
	for ti, ops := range sc.Tasks {
		for i, op := range ops {
			r := results[ti][i]
			b := bases[baseKey(ti, i, op)]
			if r.aborted {
				return &Finding{Class: "C08/no-progress", Detail: fmt.Sprintf("task %d op %d (%s of program %d) exceeded the step bound %d (alone: %d instructions)\n%s", ti, i, op.Kind, op.Prog, s.stepBound, b.steps, detailHead())}, rec
			}
			if r.key != b.key {
				kind := "result-differs"
				if contains(r.key, "memory budget") && !contains(b.key, "memory budget") {
					kind = "budget-exceeded-only-concurrently"
				}
				if op.Kind == "compile" {
					kind = "compile-" + kind
				}
				return &Finding{Class: "C08/" + kind, Detail: fmt.Sprintf("task %d op %d (%s of program %d: %s)\n concurrently: %s\n alone:        %s\n%s", ti, i, op.Kind, op.Prog, srcs[op.Prog], r.key, b.key, detailHead())}, rec
			}
			if r.steps != b.steps {
				return &Finding{Class: "C08/instruction-count-differs", Detail: fmt.Sprintf("task %d op %d (%s of program %d) executed %d instructions concurrently, %d alone\n%s", ti, i, op.Kind, op.Prog, r.steps, b.steps, detailHead())}, rec
			}
		}
	}
	for ti, m := range snapFail {
		if m != "" {
			return &Finding{Class: "C08/shared-value-modified", Detail: fmt.Sprintf("observed by task %d during the run: %s\n%s", ti, m, detailHead())}, rec
		}
	}
	if m := checkSnaps(); m != "" {
		return &Finding{Class: "C08/shared-value-modified", Detail: "after all tasks finished: " + m + "\n" + detailHead()}, rec
	}
	if fmt.Sprint(opNames) != opNamesSnap {
		return &Finding{Class: "C08/shared-value-modified", Detail: fmt.Sprintf("the caller's slice passed to expr.Operator(...) was modified: %s -> %v\n%s", opNamesSnap, opNames, detailHead())}, rec
	}
	if vm.MemoryBudget != budget {
		return &Finding{Class: "C08/budget-variable-modified", Detail: fmt.Sprintf("vm.MemoryBudget changed from %d to %d while tasks ran", budget, vm.MemoryBudget)}, rec
	}
	if len(ctx.Samples) < ctx.MaxSamp && inside > 0 {
		ctx.Sample(map[string]interface{}{"programs": srcs, "tasks": sc.Tasks, "policy": sc.Policy, "budget": budget, "context_switches": s.switches, "first_segments": recShown})
	}
	return nil, rec
}

func (c08Engine) Shrinks(sci interface{}) []interface{} {
	sc := sci.(*SchedScenario)
	var out []interface{}
	add := func(f func(c *SchedScenario)) {
		c := sc.clone()
		f(c)
		if mustJSONString(c) != mustJSONString(sc) {
			out = append(out, c)
		}
	}
	// first make the schedule explicit (independent of the policy's random stream)
	if len(sc.Schedule) == 0 {
		q := NewRunCtx()
		q.Quiet = true
		var rec []Seg
		func() {
			defer func() { recover() }()
			_, rec = runSched(sc.clone(), q)
		}()
		if len(rec) > 0 && len(rec) <= 20000 {
			add(func(c *SchedScenario) { c.Schedule = rec })
		}
	}
	// drop tasks, drop ops
	if len(sc.Tasks) > 2 {
		for t := range sc.Tasks {
			t := t
			add(func(c *SchedScenario) { c.Tasks = append(c.Tasks[:t:t], c.Tasks[t+1:]...); c.Schedule = nil })
		}
	}
	for t, ops := range sc.Tasks {
		if len(ops) > 1 {
			for i := range ops {
				t, i := t, i
				add(func(c *SchedScenario) { c.Tasks[t] = append(c.Tasks[t][:i:i], c.Tasks[t][i+1:]...); c.Schedule = nil })
			}
		}
	}
	for t, ops := range sc.Tasks {
		for i, op := range ops {
			t, i := t, i
			if op.Kind != "run" {
				add(func(c *SchedScenario) { c.Tasks[t][i].Kind = "run"; c.Schedule = nil })
			}
			if op.Prog != 0 {
				add(func(c *SchedScenario) { c.Tasks[t][i].Prog = 0; c.Schedule = nil })
			}
		}
	}
	// drop programs no op uses
	for pi := range sc.Progs {
		used := false
		for _, ops := range sc.Tasks {
			for _, op := range ops {
				if op.Prog == pi {
					used = true
				}
			}
		}
		if !used && len(sc.Progs) > 1 {
			pi := pi
			add(func(c *SchedScenario) {
				c.Progs = append(c.Progs[:pi:pi], c.Progs[pi+1:]...)
				for t := range c.Tasks {
					for i := range c.Tasks[t] {
						if c.Tasks[t][i].Prog > pi {
							c.Tasks[t][i].Prog--
						}
					}
				}
				c.Schedule = nil
			})
		}
	}
	// simpler policies
	if sc.Policy != PolBurst || sc.Param != 16 {
		add(func(c *SchedScenario) { c.Policy = PolBurst; c.Param = 16; c.Schedule = nil })
	}
	if sc.Policy != PolPCT || sc.Param != 1 {
		add(func(c *SchedScenario) { c.Policy = PolPCT; c.Param = 1; c.Schedule = nil })
	}
	// explicit schedule: fewer segments
	if n := len(sc.Schedule); n > 1 {
		add(func(c *SchedScenario) { c.Schedule = c.Schedule[:n/2] })
		if n <= 40 {
			for i := 0; i < n; i++ {
				i := i
				add(func(c *SchedScenario) { c.Schedule = append(c.Schedule[:i:i], c.Schedule[i+1:]...) })
			}
		}
	}
	// unused programs → simplify used ones
	for pi, p := range sc.Progs {
		pi := pi
		if p.Tree == nil {
			continue
		}
		ts := treeShrinks(p.Tree)
		if len(ts) > 60 {
			ts = ts[:60]
		}
		for _, t := range ts {
			t := t
			add(func(c *SchedScenario) {
				c.Progs[pi].Tree = t
				c.Progs[pi].Source = c.Progs[pi].Src()
				c.Schedule = nil
			})
		}
		if !p.Optimize {
			add(func(c *SchedScenario) { c.Progs[pi].Optimize = true })
		}
	}
	add(func(c *SchedScenario) { c.ConstExpr = false })
	add(func(c *SchedScenario) { c.Rep = RepStruct })
	return out
}
