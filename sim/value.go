package main

import (
	"crypto/sha256"
	"encoding/hex"
	"fmt"
	"math"
	"reflect"
	"sort"
	"strconv"
	"strings"
)

// Canon renders a Go value in a canonical form used to compare results:
// numbers carry their kind (an int 3 is not an int64 3), sequences are
// rendered element by element whatever their Go slice type ([]int{1} and
// []interface{}{1} are the same sequence), maps are rendered with sorted
// keys, floats by bit pattern, pointers are followed (with cycle detection).
func Canon(v interface{}) string {
	var sb strings.Builder
	canonValue(&sb, reflect.ValueOf(v), map[uintptr]bool{}, false, 0)
	return sb.String()
}

// Snapshot renders a value for mutation detection: like Canon but slice
// element types and capacities matter too, unexported fields are included,
// and funcs are rendered by nil-ness.
func Snapshot(v interface{}) string {
	var sb strings.Builder
	canonValue(&sb, reflect.ValueOf(v), map[uintptr]bool{}, true, 0)
	return sb.String()
}

func Digest(s string) string {
	h := sha256.Sum256([]byte(s))
	return hex.EncodeToString(h[:8])
}

func canonValue(sb *strings.Builder, v reflect.Value, seen map[uintptr]bool, snap bool, depth int) {
	// depth guard: slices and maps can only refer to themselves when something has
	// corrupted them; cut instead of recursing forever
	if depth > 200 {
		sb.WriteString("<deeper than 200 levels: cyclic value?>")
		return
	}
	if sb.Len() > 1<<20 {
		// a value that aliases itself (again: only after corruption) can render
		// exponentially large; nothing legitimate in the simulator comes near 1 MiB
		if sb.Len() < 1<<20+64 {
			sb.WriteString("<rendering cut at 1 MiB>")
		}
		return
	}
	if !v.IsValid() {
		sb.WriteString("nil")
		return
	}
	switch v.Kind() {
	case reflect.Interface:
		if v.IsNil() {
			sb.WriteString("nil")
			return
		}
		canonValue(sb, v.Elem(), seen, snap, depth+1)
	case reflect.Ptr:
		if v.IsNil() {
			if snap {
				sb.WriteString("nil(" + v.Type().String() + ")")
			} else {
				sb.WriteString("nil")
			}
			return
		}
		if v.Type().String() == "*regexp.Regexp" {
			m := v.MethodByName("String")
			if m.IsValid() && m.Type().NumIn() == 0 {
				// Exported method on an exported type: callable even when the pointer was
				// reached through an exported path only.
				if v.CanInterface() {
					out := m.Call(nil)
					sb.WriteString("regexp(" + strconv.Quote(out[0].String()) + ")")
					return
				}
			}
			sb.WriteString("regexp(?)")
			return
		}
		p := v.Pointer()
		if seen[p] {
			sb.WriteString("&cycle")
			return
		}
		seen[p] = true
		sb.WriteString("&")
		canonValue(sb, v.Elem(), seen, snap, depth+1)
		delete(seen, p)
	case reflect.Bool:
		sb.WriteString(strconv.FormatBool(v.Bool()))
	case reflect.Int, reflect.Int8, reflect.Int16, reflect.Int32, reflect.Int64:
		sb.WriteString(v.Kind().String() + ":" + strconv.FormatInt(v.Int(), 10))
	case reflect.Uint, reflect.Uint8, reflect.Uint16, reflect.Uint32, reflect.Uint64, reflect.Uintptr:
		sb.WriteString(v.Kind().String() + ":" + strconv.FormatUint(v.Uint(), 10))
	case reflect.Float32, reflect.Float64:
		sb.WriteString(v.Kind().String() + ":" + strconv.FormatUint(math.Float64bits(v.Float()), 16))
	case reflect.String:
		sb.WriteString(strconv.Quote(v.String()))
	case reflect.Slice, reflect.Array:
		if v.Kind() == reflect.Slice && v.IsNil() && snap {
			sb.WriteString("nilslice(" + v.Type().String() + ")")
			return
		}
		if snap {
			sb.WriteString(v.Type().String())
		}
		sb.WriteString("[")
		for i := 0; i < v.Len(); i++ {
			if i > 0 {
				sb.WriteString(" ")
			}
			canonValue(sb, v.Index(i), seen, snap, depth+1)
		}
		sb.WriteString("]")
		if snap && v.Kind() == reflect.Slice && v.Cap() > v.Len() {
			// The spare capacity is part of what a run could scribble on.
			sb.WriteString("+cap[")
			ext := v.Slice(0, v.Cap())
			for i := v.Len(); i < v.Cap(); i++ {
				if i > v.Len() {
					sb.WriteString(" ")
				}
				canonValue(sb, ext.Index(i), seen, snap, depth+1)
			}
			sb.WriteString("]")
		}
	case reflect.Map:
		if v.IsNil() && snap {
			sb.WriteString("nilmap(" + v.Type().String() + ")")
			return
		}
		if snap {
			sb.WriteString(v.Type().String())
		}
		type kv struct{ k, v string }
		var kvs []kv
		iter := v.MapRange()
		for iter.Next() {
			var kb, vb strings.Builder
			canonValue(&kb, iter.Key(), seen, snap, depth+1)
			canonValue(&vb, iter.Value(), seen, snap, depth+1)
			kvs = append(kvs, kv{kb.String(), vb.String()})
		}
		sort.Slice(kvs, func(i, j int) bool {
			if kvs[i].k != kvs[j].k {
				return kvs[i].k < kvs[j].k
			}
			return kvs[i].v < kvs[j].v // keys of different types can render alike
		})
		sb.WriteString("{")
		for i, e := range kvs {
			if i > 0 {
				sb.WriteString(" ")
			}
			sb.WriteString(e.k + ":" + e.v)
		}
		sb.WriteString("}")
	case reflect.Struct:
		t := v.Type()
		sb.WriteString(t.String() + "{")
		first := true
		for i := 0; i < t.NumField(); i++ {
			f := t.Field(i)
			if f.Name == "w" && f.Type.String() == "*main.World" {
				continue // the harness's own back-pointer is not part of the environment value
			}
			if !snap && f.PkgPath != "" {
				continue
			}
			if !first {
				sb.WriteString(" ")
			}
			first = false
			sb.WriteString(f.Name + ":")
			canonValue(sb, v.Field(i), seen, snap, depth+1)
		}
		sb.WriteString("}")
	case reflect.Func:
		if v.IsNil() {
			sb.WriteString("func(nil)")
		} else {
			sb.WriteString("func")
		}
	case reflect.Chan, reflect.UnsafePointer:
		if v.IsNil() {
			sb.WriteString(v.Kind().String() + "(nil)")
		} else {
			sb.WriteString(v.Kind().String())
		}
	default:
		sb.WriteString(fmt.Sprintf("?%s", v.Kind()))
	}
}
