module verifsim

go 1.23

require github.com/antonmedv/expr v0.0.0

replace github.com/antonmedv/expr => /repo
