package main

import (
	"encoding/json"
	"fmt"
	"regexp"
	"strings"

	"github.com/antonmedv/expr"
	"github.com/antonmedv/expr/vm"
)

// ---------------------------------------------------------------------------
// C02 (scoped): ConstExpr failure timing and history-preserving rewrites.
// One source is compiled with Optimize(true) and Optimize(false), with a
// subset of the world's pure functions marked ConstExpr, and both programs
// run several times on identical fresh worlds (pure or stateful other
// functions). Fault: a poisoned argument tuple on which a pure function
// panics whenever it is called - at compile time or at run time.
// ---------------------------------------------------------------------------

type C02Scenario struct {
	Seed     uint64        `json:"seed"`
	Index    int           `json:"index"`
	Rep      string        `json:"env_representation"`
	Stateful bool          `json:"stateful_functions"`
	Marks    []string      `json:"const_expr_functions"`
	Poison   []PoisonFault `json:"poison,omitempty"`
	Runs     int           `json:"runs"`
	Layout   Layout        `json:"layout"`
	Tree     *N            `json:"tree,omitempty"`
	Env      *EnvData      `json:"env"`
	// Raw: a typed-operand probe - source text outside the reference fragment
	// (operands of every numeric kind, floats, strings, nil, dynamic values next
	// to a rewrite candidate). Only the optimised-versus-unoptimised oracles
	// apply to it; no reference model is involved.
	Raw string `json:"raw,omitempty"`
	// StaleOption (map environments): members of the sample map change type after
	// expr.Env(sample) was called and before Compile.
	StaleOption bool `json:"stale_option,omitempty"`
	// Operator (probes): an arithmetic operator overloaded with OpS (two strings)
	// or OpI (two ints); the probe has literal operands around it.
	Operator []string `json:"operator,omitempty"`
	Source   string   `json:"source_text,omitempty"`
}

func (sc *C02Scenario) src() string {
	if sc.Tree == nil {
		return sc.Raw
	}
	return Print(sc.Tree, sc.Layout).Src
}

func (sc *C02Scenario) clone() *C02Scenario {
	b, _ := json.Marshal(sc)
	var c C02Scenario
	json.Unmarshal(b, &c)
	return &c
}

type c02Engine struct{}

func init() { register(c02Engine{}) }

func (c02Engine) Property() string { return "C02" }
func (c02Engine) Name() string     { return "envsim/constexpr-timing-and-rewrites" }
func (c02Engine) Level() string    { return "exploration" }
func (c02Engine) Count(tier string) int {
	if tier == "thorough" {
		return 2000000
	}
	return 80000
}
func (c02Engine) Rule() string {
	return "Scenario i from H(VERIF_SEED,'C02',i): a typed random program of the mini-expr fragment biased toward shapes in which a rewrite fires (constant arithmetic at depth, literal arrays, membership in literal arrays and ranges, constant ranges, calls of pure functions with constant, partly constant and nested-constant arguments), an environment value, a subset of the pure functions {CI,CS,CB,C64} marked ConstExpr, pure or stateful other functions, and with probability 1/2 a poisoned argument tuple of a pure function taken from the fault-free journal (the function panics whenever called with it - at compile or run time). The source is compiled three ways: Optimize(true)+marks, Optimize(false)+marks, Optimize(true) without marks; each program runs Runs times on identical fresh worlds. One evaluation = one run of one program. Non-trivial = the optimised program differs from the unoptimised one (a rewrite fired) or a compile-time call happened; distinct = distinct (source, env, marks, poison, stateful) signatures."
}
func (c02Engine) Assumptions() []string {
	return []string{
		"scoped: decides WHEN an injected failure of a pure function surfaces (compile vs run time) and that rewrites preserve results and the external-call history; the matrix of operand static types over which each rewrite may fire (floats, strings, nil, dynamic) is a pure input-space claim and is only sampled",
		"a poisoned call in a branch the unoptimised run never takes may be rejected at compile time (conservative reading of 'that call')",
		"the pure functions CI, CS, CB, C64 really are pure (harness code)",
	}
}
func (c02Engine) Required(tier string) []string {
	return []string{"hook_calls", "compile_time_calls", "rewrite_fired", "poison_fired_at_compile", "poison_fired_at_run", "runs_compared", "runs_failing_in_both", "stateful_scenarios", "rejections_justified_by_fault", "typed_operand_probes"}
}
func (c02Engine) Decode(raw []byte) (interface{}, error) {
	var sc C02Scenario
	err := json.Unmarshal(raw, &sc)
	return &sc, err
}

var c02Pure = []string{"CI", "CS", "CB", "C64"}

func (c02Engine) Gen(seed uint64, idx int, tier string) interface{} {
	r := NewRNG(seed)
	sc := &C02Scenario{Seed: seed, Index: idx}
	sc.Env = GenEnvData(r)
	sc.Rep = []string{RepStruct, RepPtr, RepMap}[r.Intn(3)]
	sc.Stateful = r.Chance(1, 2)
	sc.Runs = r.Range(1, 3)
	sc.Layout = Layout{Mode: r.Intn(3), Salt: r.Next()}
	for _, f := range c02Pure {
		if r.Chance(2, 3) {
			sc.Marks = append(sc.Marks, f)
		}
	}
	if r.Chance(1, 4) {
		sc.Raw = genTypedProbe(r, sc.Env)
		sc.Source = sc.Raw
		if sc.Rep == RepMap && r.Chance(1, 3) {
			sc.StaleOption = true
			sc.Raw = r.Pick([]string{"A in [1, 2, 3]", "B in 1..3", "A not in [0, 1]", "A == 1", "B in [1, 2]", "K in [1, 2]", "A in 0..9"})
			sc.Source = sc.Raw
		}
		if !sc.StaleOption && r.Chance(1, 10) {
			if r.Chance(1, 2) {
				sc.Operator = []string{"+", "OpS"}
				sc.Raw = r.Pick([]string{`"usr" + "bin"`, `S + "a"`, `"a" + "b" + S`, `("a" + "b") == "a/b"`, `("a" + "b") in ["ab", "a/b"]`, `["x" + "y", T + "y"]`, `len("a" + "b")`, `CS("a" + "b")`, `"a" + "b" + "c"`})
			} else {
				op := r.Pick([]string{"+", "-", "*", "%", "**"})
				sc.Operator = []string{op, "OpI"}
				sc.Raw = strings.ReplaceAll(r.Pick([]string{"70 @ 70", "A @ 1", "1 @ 2 @ A", "[1 @ 2, A @ 1]", "(7 @ 2) == 702", "CI(3 @ 4)", "(2 @ 3) in 1..9", "Xs[0 @ 0:]", "5 @ 0", "len(1..(1 @ 2))"}), "@", op)
			}
			sc.Source = sc.Raw
		}
		sc.Marks = append(sc.Marks, "Ff", "CL", "CP", "CN")
		return sc
	}
	cfg := GenCfg{Budget: r.Range(4, 36), Calls: true, Dyn: r.Chance(1, 2), Failing: r.Chance(2, 3), Strings: true,
		Closures: r.Chance(3, 4), Maps: r.Chance(1, 2), Objects: r.Chance(1, 2), ShortPred: r.Chance(1, 2), NilSafe: r.Chance(1, 3), SliceCall: true, ConstFns: true, Pow: true}
	cfg.AnyUsable = sc.Rep != RepMap || (sc.Env.Any != nil && sc.Env.Any.Kind == "int")
	cfg.MapRep = sc.Rep == RepMap
	g := NewGen(r.Fork(), cfg)
	sc.Tree = genRoot(g, r)
	if r.Chance(1, 3) {
		// make sure pure calls with constant arguments are present, at depth
		extra := nCall("CI", g.constInt(2))
		if r.Chance(1, 3) {
			extra = nCall("C64", g.constLit(1))
		}
		sc.Tree = nArr(sc.Tree, extra, nCond(nID("P"), nCall("CB", g.constInt(1), g.constInt(1)), nBool(false)))
	}
	sc.Source = Print(sc.Tree, sc.Layout).Src
	if r.Chance(1, 2) {
		w := NewWorld(sc.Stateful, nil, nil)
		ref := NewRef(BuildEnv(w, sc.Env))
		ref.Eval(sc.Tree)
		var cands []CallRec
		for _, c := range w.Journal {
			if pureFns[c.Name] {
				cands = append(cands, c)
			}
		}
		if len(cands) > 0 {
			c := cands[r.Intn(len(cands))]
			sc.Poison = []PoisonFault{{Name: c.Name, Args: c.Args, Kind: panicFaultKinds[r.Intn(len(panicFaultKinds))]}}
		}
	}
	return sc
}

// genTypedProbe builds a rewrite candidate whose operands have static types
// outside the int/bool/string fragment. The environment is known, so literals
// can be placed at the values that matter (the operand's own value, its
// neighbours, values that wrap to it in a narrower kind).
func genTypedProbe(r *RNG, d *EnvData) string {
	e := BuildEnv(nil, d)
	type opnd struct {
		src string
		val int // integer part of the run-time value
	}
	ops := []opnd{
		{"U8", int(e.U8)}, {"U16", int(e.U16)}, {"I8", int(e.I8)}, {"I64", int(e.I64)}, {"F64", int(e.F64)}, {"F32", int(e.F32)},
		{"A", e.A}, {"S", 0}, {"Any", 0}, {"nil", 0}, {"O.V", e.O.V}, {"C64(2)", 5}, {"len(Xs)", len(e.Xs)}, {"Ff(1)", 2},
		{"(I8 + 1)", int(e.I8) + 1}, {"(F64 * 2)", int(e.F64 * 2)}, {"On?.V", 0}, {"P", 0},
	}
	o := ops[r.Intn(len(ops))]
	near := func() int {
		switch r.Intn(6) {
		case 0:
			return o.val
		case 1:
			return o.val + 1
		case 2:
			return o.val - 1
		case 3:
			return o.val + 256
		case 4:
			return o.val + 65536
		default:
			return r.Range(-3, 9)
		}
	}
	lit := func(i int) string {
		if i < 0 {
			return fmt.Sprintf("(-%d)", -i)
		}
		return fmt.Sprint(i)
	}
	in := r.Pick([]string{"in", "not in"})
	switch r.Intn(19) {
	case 0: // membership in a literal range, boundaries at the operand's value
		a := near()
		b := a + r.Range(-1, 3)
		return fmt.Sprintf("%s %s %s..%s", o.src, in, lit(a), lit(b))
	case 1: // membership in a literal int array
		return fmt.Sprintf("%s %s [%s, %s, %s]", o.src, in, lit(near()), lit(near()), lit(near()))
	case 2: // membership in a literal string array
		return fmt.Sprintf("%s %s [\"a\", %q, \"zz\"]", o.src, in, d.S)
	case 3: // integer literal arithmetic retyped to a float parameter
		i, j := r.Range(1, 9), r.Range(1, 9)
		return fmt.Sprintf("Ff(%d %s %d)", i, r.Pick([]string{"/", "*", "-", "+"}), j)
	case 4:
		i, j, k := r.Range(1, 9), r.Range(2, 9), r.Range(1, 5)
		return fmt.Sprintf("Ff(%d / %d + %d) + %s", i, j, k, r.Pick([]string{"F64", "1", "I8"}))
	case 5: // constant arithmetic next to an operand of another kind
		return fmt.Sprintf("%s %s (%d %s %d)", o.src, r.Pick([]string{"+", "-", "*", "==", "<", ">="}), r.Range(1, 9), r.Pick([]string{"+", "-", "*", "/", "%"}), r.Range(1, 9))
	case 6: // literal range indexed / measured by an operand of another kind
		return fmt.Sprintf("(%d..%d)[%s]", r.Range(-2, 2), r.Range(3, 9), r.Pick([]string{"U8 % 3", "I8 - I8", "len(Ys)", "K"}))
	case 7: // mixed literal arrays are not folded; homogeneous ones are
		return fmt.Sprintf("%s %s [%s, %s]", o.src, in, lit(near()), r.Pick([]string{"1.5", "\"a\"", "nil", "2", "A"}))
	case 9: // two literal collections whose contents print alike (constant-pool identity)
		return r.Pick([]string{
			`(A in [1, 2]) == (S in ["1", "2"])`,
			`len(["a b", "c"]) + len(["a", "b", "c"])`,
			`[A in [1, 2, 3], S in ["1", "2", "3"], len([1, 2, 3]), len(["1 2", "3"])]`,
			`(O.V in [1, 0]) or (T in ["1", "0"])`,
			`[len([1, 2]), len(["1", "2"]), len(1..2)]`,
		})
	case 11: // a conditional whose branches have different static types, under a rewrite
		return fmt.Sprintf("(%s ? %s : %s) %s %s", r.Pick([]string{"P", "Q", "not P"}),
			r.Pick([]string{"1", "A", "nil", "Any", "S", "O.V"}), r.Pick([]string{"Any", "nil", "1", "A", "On?.V", "F64"}),
			in, r.Pick([]string{"[1, 2, 3]", "[0, 1]", "0..3", "1..1", "[\"a\", \"dyn\"]"}))
	case 12: // constant ranges at and beyond the default budget
		if r.Chance(1, 4) {
			return r.Pick([]string{"len(1..1000000)", "A in 1..10000000", "[len(1..600000), len(1..600000)]", "len(1..999999)", "len(0..999998)"})
		}
		return fmt.Sprintf("len(%d..%d)", r.Range(-2, 2), r.Range(3, 40))
	case 13: // literal arithmetic in an int64 parameter position (only + - * / and unary -/+ retype literals)
		return fmt.Sprintf("C64(%d %s %d)", r.Range(1, 200), r.Pick([]string{"%", "%", "/", "*", "-"}), r.Range(1, 9))
	case 14: // signed zeros and other float literals that differ only by sign or spelling
		return r.Pick([]string{"1/0.0 == 1/-0.0", "[0.0, -0.0]", "F64/0.0 + F64/-0.0", "[1/0.0, 1/-0.0]", "-0.0 == 0.0", "[-1.5, 1.5, -(1.5)]", "[0.5, .5, 5e-1]"})
	case 15: // a struct field shadowing an embedded field of another type
		return fmt.Sprintf("Lvl %s %s", in, r.Pick([]string{"[1, 2, 3]", "1..3", "[0, 1]", "0..0"}))
	case 16: // negated comparisons (operand possibly nil, NaN), powers of literals, duplicate map keys
		return r.Pick([]string{
			"On?.V in [1]", "On?.V not in [0]", "On?.Name in [\"a\"]", "O?.Next?.V in [0]", "O?.Next?.Name in [\"\"]", "A in [1]", "S in [\"a\"]", "Any in [1]", "F64 in [1]", "nil in [1]", "I8 in [1]",
			"not (On?.V == A)", "not (On?.V != 0)", "not (O?.V == A)", "not (A == O.V)", "not (S in [\"a\"])", "not (A not in [1, 2])",
			"not (0.0 / 0.0 < 3)", "not (F64 / 0.0 * 0.0 >= 1)", "not (F64 < 1)", "not (A <= B)",
			"2 ** 63", "10 ** 19 > 0", "3 ** 41", "2 ** 10", "[1, 2][10 ** 19 > 0 ? 0 : 1]", "(-2) ** 63",
			"{\"a\": 1, \"a\": 2}.a", "{\"a\": 1, \"b\": 5, \"a\": 1 + 1}", "{\"k\": A, \"k\": B}.k", "len({\"a\": 1, \"a\": 2})",
			"len(-5000000000000000000..5000000000000000000)", "A in -5000000000000000000..5000000000000000000", "len(1..9223372036854775807)",
		})
	case 17: // re-associated float sums, float literals divided by an integer zero, nil to a nilable parameter, several pure calls with equal arguments
		return r.Pick([]string{
			"(F64 * 0 + 10000000000000000.0) + 1 + 1", "(F64 * 0 + 1e16) + 1 + 1 + 1", "Any + 1 + 1", "F64 + 1 + 1", "S + \"a\" + \"b\"",
			"1.5 / 0", "(0.5 + 0.5) / 0", "P ? 1 : 1.5 / 0", "-2.5 / 0 > 0", "F64 / 0",
			"CP(nil)", "CP(On)", "CP(O)", "[CP(nil), 1]",
			// operands of named int / string types under the membership rewrites
			"MI in [1, 2, 3]", "MI in 1..3", "MS in [\"a\", \"b\"]", "MI not in [2]", "MI in [2]", "MS not in [\"a\"]", "MI in 2..2", "MI not in 0..9",
			// literal arithmetic in a float / int8 parameter position; a literal array compared with a typed slice
			"Ff(5 % 3 + 1)", "Ff(7 % 4 * 2)", "Ff(9 % 5 - 1)", "C8(200 / 3)", "C8(100 + 100)", "C8(7 * 3)", "C8(300 - 50)",
			"[1, 2, 3] == Xs", "Xs == [1, 2, 3]", "[\"a\"] != Ss", "Ys == [0, 0]",
			"[CI(2), CL(2), Ff(2)]", "[CL(3), CI(3)]", "[CN(1), CL(1)]", "CN(2) == nil", "[CS(\"Ab\"), CI(1), CS(\"Ab\")]",
		})
	case 10: // a ConstExpr function returning a named integer type through interface{}
		return fmt.Sprintf("CL(%d) %s", r.Range(0, 3), r.Pick([]string{"== 1", "== 0", "in 0..2", "in [0, 1]", "not in 1..3", "!= 2"}))
	default: // ConstExpr float function with folded arguments under a comparison
		return fmt.Sprintf("Ff(%d) %s %s", r.Range(0, 4), r.Pick([]string{"==", "<", ">="}), o.src)
	}
}

var (
	ffModuloRe     = regexp.MustCompile(`^Ff\(\d+ % \d+ [-+*] \d+\)$`)
	c8DivisionRe   = regexp.MustCompile(`^C8\(\d+ / \d+\)$`)
	literalArrEqRe = regexp.MustCompile(`^(\[[^\[\]]*\] [!=]= (Xs|Ys|Ss)|(Xs|Ys|Ss) [!=]= \[[^\[\]]*\])$`)
)

// knownProbeShape names the three probe shapes listed in known_findings.json.
func knownProbeShape(src string) string {
	switch {
	case ffModuloRe.MatchString(src):
		return "modulo-then-arithmetic-in-float-argument"
	case c8DivisionRe.MatchString(src):
		return "literal-division-in-int8-argument"
	case literalArrEqRe.MatchString(src):
		return "literal-array-compared-with-typed-slice"
	}
	return ""
}

var literalRangeRe = regexp.MustCompile(`(-?\d+)\)?\s*\.\.\s*\(?(-?\d+)`)

// hasHugeLiteralRange: the source contains a literal range of at least 100000 elements.
func hasHugeLiteralRange(src string) bool {
	for _, m := range literalRangeRe.FindAllStringSubmatch(src, -1) {
		var a, b int
		fmt.Sscan(m[1], &a)
		fmt.Sscan(m[2], &b)
		if b >= a && uint64(b)-uint64(a) >= 99999 {
			return true
		}
	}
	return false
}

// an INTEGER literal divided by (or taken modulo) a literal zero: the dividend must
// not be the fraction of a float literal, the divisor not the start of one
var literalDivZeroRe = regexp.MustCompile(`(^|[^.\d])\d+\)?\s*[/%]\s*\(?-?0($|[^.\dxX])`)

// sameFailure: two error texts describe the same failure once the position, the
// snippet and the "compile error:" / "runtime error:" prefix are set aside.
func sameFailure(a, b string) bool {
	norm := func(s string) string {
		s = firstLine(s)
		if i := strings.LastIndex(s, " ("); i > 0 && strings.HasSuffix(s, ")") {
			s = s[:i]
		}
		s = strings.Replace(s, "compile error:", "", 1)
		s = strings.Replace(s, "runtime error:", "", 1)
		return strings.TrimSpace(s)
	}
	return norm(a) != "" && norm(a) == norm(b)
}

// hasConstDivZero: the source contains an integer division or modulo whose
// operands are constant and whose divisor is zero.
func hasConstDivZero(root *N) bool {
	found := false
	root.Walk(func(n *N) {
		if n.K == "bin" && (n.S == "/" || n.S == "%") && constOnly(n.C[0]) && constOnly(n.C[1]) {
			r := NewRef(nil)
			v, err := r.Eval(n.C[1])
			if err == nil {
				if i, ok := v.(int); ok && i == 0 {
					found = true
				}
			}
		}
	})
	return found
}

type c02Prog struct {
	label string
	prog  *vm.Program
	co    Outcome
	world *World // compile-phase world
}

func (c02Engine) Run(sci interface{}, ctx *RunCtx) *Finding {
	sc := sci.(*C02Scenario)
	pr := &Printed{Src: sc.src()}
	if sc.Tree == nil {
		ctx.Count("typed_operand_probes", 1)
	}
	ctx.Logf("source %q rep=%s stateful=%v marks=%v poison=%v runs=%d", pr.Src, sc.Rep, sc.Stateful, sc.Marks, sc.Poison, sc.Runs)
	if sc.Stateful {
		ctx.Count("stateful_scenarios", 1)
	}
	compile := func(label string, optimize bool, marks []string) c02Prog {
		w := NewWorld(false, nil, sc.Poison)
		w.Phase = "compile"
		sample := BuildEnv(w, sc.Env).AsRep(sc.Rep)
		envOpt := expr.Env(sample)
		if m, ok := sample.(map[string]interface{}); ok && sc.StaleOption {
			// the map changes after the option value was created: what a compilation
			// knows about the members must be what they are when it compiles
			m["A"] = int64(sc.Env.A)
			m["B"] = float64(sc.Env.B) + 0.5
			m["K"] = "k"
		}
		opts := []expr.Option{envOpt}
		if !optimize {
			opts = append(opts, expr.Optimize(false))
		}
		for _, m := range marks {
			opts = append(opts, expr.ConstExpr(m))
		}
		if len(sc.Operator) == 2 {
			opts = append(opts, expr.Operator(sc.Operator[0], sc.Operator[1]))
			ctx.Count("probes_with_overloaded_operator", 1)
		}
		p, co := sutCompile(pr.Src, opts...)
		ctx.Logf("compile %s: %s | compile-phase journal %v fired %v", label, firstLine(co.ErrText()), journalStrings(w.Journal), w.Fired)
		return c02Prog{label, p, co, w}
	}
	on := compile("optimized+marks", true, sc.Marks)
	off := compile("unoptimized+marks", false, sc.Marks)
	plain := compile("optimized,no-marks", true, nil)
	head := func() string {
		return fmt.Sprintf("source: %s\nenv: %s\nmarks=%v poison=%v stateful=%v rep=%s", pr.Src, sc.Env, sc.Marks, sc.Poison, sc.Stateful, sc.Rep)
	}
	for _, p := range []c02Prog{on, off, plain} {
		if p.co.Panicked {
			return &Finding{Class: "C02/compile-panic", Detail: p.label + ": Compile panicked: " + p.co.PanicVal + "\n" + head()}
		}
	}
	divZero := false
	if sc.Tree != nil {
		divZero = hasConstDivZero(sc.Tree)
	} else {
		divZero = literalDivZeroRe.MatchString(sc.Raw)
	}
	if off.co.Err != nil && sc.Tree == nil {
		// a probe the type checker rejects is not a program: nothing to compare
		// (the optimised compilation must then be rejected as well)
		ctx.Count("probes_rejected_by_checker", 1)
		if on.co.Err == nil || plain.co.Err == nil {
			return &Finding{Class: "C02/optimizer-accepts-rejected-program", Detail: "the unoptimised compiler rejects the source (" + firstLine(off.co.ErrText()) + ") but the optimised one accepts it\n" + head()}
		}
		return nil
	}
	if off.co.Err != nil {
		return &Finding{Class: "C02/unoptimized-compile-rejected", Detail: "the unoptimised compiler rejected a well-typed program: " + off.co.ErrText() + "\n" + head()}
	}
	if len(off.world.Journal) != 0 {
		return &Finding{Class: "C02/call-at-compile-time-without-optimizer", Detail: fmt.Sprintf("environment functions were called while compiling with Optimize(false): %v\n%s", journalStrings(off.world.Journal), head())}
	}
	if len(plain.world.Journal) != 0 {
		return &Finding{Class: "C02/call-at-compile-time-without-mark", Detail: fmt.Sprintf("environment functions not marked ConstExpr were called during Compile: %v\n%s", journalStrings(plain.world.Journal), head())}
	}
	marked := map[string]bool{}
	for _, m := range sc.Marks {
		marked[m] = true
	}
	for _, c := range on.world.Journal {
		if !marked[c.Name] {
			return &Finding{Class: "C02/unmarked-function-called-at-compile-time", Detail: fmt.Sprintf("%s was called during Compile but is not marked ConstExpr\n%s", c.String(), head())}
		}
	}
	ctx.Count("compile_time_calls", len(on.world.Journal))
	if plain.co.Err != nil && !divZero {
		return &Finding{Class: "C02/optimizer-rejects-accepted-program", Detail: "Optimize(true) without ConstExpr marks rejected a program the unoptimised compiler accepts, and it contains no constant division or modulo by zero: " + plain.co.ErrText() + "\n" + head()}
	}
	if on.co.Err != nil {
		justified := ""
		switch {
		case len(on.world.Fired) > 0 && len(on.world.Journal) > 0:
			justified = "fault"
			ctx.Count("rejections_justified_by_fault", 1)
			ctx.Count("poison_fired_at_compile", 1)
		case divZero:
			justified = "constant division by zero"
			ctx.Count("rejections_justified_by_div_zero", 1)
		}
		if justified == "" && off.prog != nil {
			// The same failure at run time? A call that cannot even be made (an
			// argument the function does not take) fails identically when the
			// unoptimised program makes it: the mark only moved it to compile time.
			w := NewWorld(sc.Stateful, nil, sc.Poison)
			envv := BuildEnv(w, sc.Env).AsRep(sc.Rep)
			beginRun(-1, 0)
			o := sutRun(nil, off.prog, envv)
			ctx.Eval()
			if o.Err != nil && sameFailure(on.co.ErrText(), o.Err.Error()) {
				justified = "the same failure at run time"
				ctx.Count("rejections_justified_by_same_runtime_failure", 1)
			}
		}
		if justified == "" {
			kind := "optimizer-rejects-accepted-program"
			if len(on.world.Journal) == 0 && len(sc.Marks) > 0 && plain.co.Err == nil {
				kind = "constexpr-rejected-without-call"
			}
			if sc.Tree == nil {
				if shape := knownProbeShape(pr.Src); shape != "" {
					kind += "/" + shape
				}
			}
			return &Finding{Class: "C02/" + kind, Detail: fmt.Sprintf("the optimised compilation was rejected (%s) although no compile-time call failed (compile-phase journal %v, faults fired %v) and the source has no constant division by zero; the unoptimised compiler accepts it\n%s", firstLine(on.co.ErrText()), journalStrings(on.world.Journal), on.world.Fired, head())}
		}
		ctx.Nontrivial(fmt.Sprintf("%s|%s|%v|%v|%v", pr.Src, sc.Env, sc.Marks, sc.Poison, sc.Stateful))
	}

	run := func(p c02Prog) (Outcome, *World) {
		w := NewWorld(sc.Stateful, nil, sc.Poison)
		envv := BuildEnv(w, sc.Env).AsRep(sc.Rep)
		if m, ok := envv.(map[string]interface{}); ok && sc.StaleOption {
			// the environment the program runs on has the members as they were when it was compiled
			m["A"] = int64(sc.Env.A)
			m["B"] = float64(sc.Env.B) + 0.5
			m["K"] = "k"
		}
		beginRun(-1, 0)
		out := sutRun(nil, p.prog, envv)
		ctx.Eval()
		return out, w
	}
	same := func(a, b Outcome) bool {
		if a.Failed() != b.Failed() {
			return false
		}
		return a.Failed() || Canon(a.Out) == Canon(b.Out)
	}
	rewrite := false
	if on.prog != nil && Snapshot(on.prog.Bytecode) != Snapshot(off.prog.Bytecode) {
		rewrite = true
		ctx.Count("rewrite_fired", 1)
	}
	if rewrite || len(on.world.Journal) > 0 {
		ctx.Nontrivial(fmt.Sprintf("%s|%s|%v|%v|%v", pr.Src, sc.Env, sc.Marks, sc.Poison, sc.Stateful))
	}
	for k := 0; k < sc.Runs; k++ {
		oOff, wOff := run(off)
		if oOff.Panicked {
			return &Finding{Class: "C02/panic-escaped", Detail: "unoptimised run panicked: " + oOff.PanicVal + "\n" + head()}
		}
		if len(wOff.Fired) > 0 {
			ctx.Count("poison_fired_at_run", 1)
		}
		for _, p := range []c02Prog{on, plain} {
			if p.prog == nil {
				continue
			}
			o, w := run(p)
			ctx.Count("runs_compared", 1)
			ctx.Logf("run %d: %s -> %s journal %v | unoptimized -> %s journal %v", k, p.label, outcomeText(o), journalStrings(w.Journal), outcomeText(oOff), journalStrings(wOff.Journal))
			if o.Panicked {
				return &Finding{Class: "C02/panic-escaped", Detail: p.label + " run panicked: " + o.PanicVal + "\n" + head()}
			}
			if o.Failed() && oOff.Failed() {
				ctx.Count("runs_failing_in_both", 1)
			}
			if !same(o, oOff) {
				kind := "result-differs"
				switch {
				case o.Failed() && !oOff.Failed():
					kind = "optimized-fails-unoptimized-succeeds"
				case !o.Failed() && oOff.Failed():
					kind = "optimized-succeeds-unoptimized-fails"
				}
				if p.label == plain.label {
					kind += "/no-marks"
				}
				if sc.Tree == nil {
					// probes whose shape is a listed finding get that shape in the class key
					// (the shapes are narrow: function, operator and operand kinds are fixed)
					if shape := knownProbeShape(pr.Src); shape != "" {
						kind += "/" + shape
					}
				}
				if !o.Failed() && oOff.Failed() && hasHugeLiteralRange(pr.Src) {
					// the optimiser builds a literal range at compile time and the run is
					// not charged for it; unoptimised, the same range exhausts the budget
					kind = "optimized-succeeds-unoptimized-fails/constant-range-not-charged"
				}
				return &Finding{Class: "C02/" + kind, Detail: fmt.Sprintf("run %d: %s: %s\n        unoptimized: %s\n%s", k, p.label, outcomeText(o), outcomeText(oOff), head())}
			}
			// journals: the optimised run's journal is the unoptimised one's minus
			// calls of marked pure functions that happened at compile time instead
			if d := c02JournalDiff(w.Journal, wOff.Journal, p.world.Journal, marked, p.label == plain.label, o.Failed()); d != "" {
				if o.Failed() && oOff.Failed() && sc.Tree != nil && mayPrebuild(sc.Tree) && len(w.Journal) > len(wOff.Journal) {
					// Both runs fail and the optimised one got further. The optimiser builds
					// constant collections at compile time, so its program creates fewer
					// elements at run time and exhausts the budget later. Decided by
					// experiment, not from the error text: under a larger budget the
					// unoptimised run goes on, and makes exactly the calls the optimised one made.
					saved := vm.MemoryBudget
					vm.MemoryBudget = saved * 8
					o2, w2 := run(off)
					vm.MemoryBudget = saved
					_ = o2
					if len(w2.Journal) > len(wOff.Journal) && c02JournalPrefix(w.Journal, w2.Journal, p.world.Journal, marked, p.label == plain.label) {
						ctx.Count("budget_reached_later_by_optimised_program", 1)
						continue
					}
				}
				return &Finding{Class: "C02/call-history-differs", Detail: fmt.Sprintf("run %d: %s\n %s journal:  %v\n unoptimized journal: %v\n compile-phase calls: %v\n%s", k, d, p.label, journalStrings(w.Journal), journalStrings(wOff.Journal), journalStrings(p.world.Journal), head())}
			}
		}
	}
	ctx.Sample(map[string]interface{}{"source": pr.Src, "marks": sc.Marks, "poison": sc.Poison, "stateful": sc.Stateful, "compile_phase_calls": journalStrings(on.world.Journal)})
	return nil
}

// c02JournalDiff: opt must be a subsequence of unopt; every entry of unopt
// missing from opt must be a call of a marked pure function that appears among
// the compile-phase calls. When both runs failed the journals may be cut at
// different points only by such moved calls too (the failure point is the same
// operation). "" = fine.
func c02JournalDiff(opt, unopt, compilePhase []CallRec, marked map[string]bool, noMarks bool, failed bool) string {
	moved := map[string]bool{}
	for _, c := range compilePhase {
		moved[c.Name+"("+c.Args+")"] = true
	}
	i := 0
	for _, u := range unopt {
		if i < len(opt) && opt[i].Name == u.Name && opt[i].Args == u.Args {
			i++
			continue
		}
		key := u.Name + "(" + u.Args + ")"
		if !noMarks && marked[u.Name] && moved[key] {
			continue // evaluated at compile time instead
		}
		return fmt.Sprintf("the unoptimised run called %s, the optimised run did not (and it was not evaluated at compile time)", u.String())
	}
	if i < len(opt) {
		return fmt.Sprintf("the optimised run made a call the unoptimised run did not: %s", opt[i].String())
	}
	return ""
}

// c02JournalPrefix: every call of opt appears, in order, in unopt, and the entries
// of unopt skipped before the last of them are calls moved to compile time.
func c02JournalPrefix(opt, unopt, compilePhase []CallRec, marked map[string]bool, noMarks bool) bool {
	moved := map[string]bool{}
	for _, c := range compilePhase {
		moved[c.Name+"("+c.Args+")"] = true
	}
	i := 0
	for _, u := range unopt {
		if i == len(opt) {
			break
		}
		if opt[i].Name == u.Name && opt[i].Args == u.Args {
			i++
			continue
		}
		if !noMarks && marked[u.Name] && moved[u.Name+"("+u.Args+")"] {
			continue
		}
		return false
	}
	return i == len(opt)
}

func (c02Engine) Shrinks(sci interface{}) []interface{} {
	sc := sci.(*C02Scenario)
	var out []interface{}
	add := func(f func(c *C02Scenario)) {
		c := sc.clone()
		f(c)
		if mustJSONString(c) != mustJSONString(sc) {
			out = append(out, c)
		}
	}
	if len(sc.Poison) > 0 {
		add(func(c *C02Scenario) { c.Poison = nil })
	}
	if sc.Tree != nil {
		for _, t := range treeShrinks(sc.Tree) {
			t := t
			add(func(c *C02Scenario) { c.Tree = t; c.Source = Print(t, c.Layout).Src })
		}
	}
	for i := range sc.Marks {
		i := i
		add(func(c *C02Scenario) { c.Marks = append(c.Marks[:i:i], c.Marks[i+1:]...) })
	}
	if sc.Runs > 1 {
		add(func(c *C02Scenario) { c.Runs = 1 })
	}
	if sc.Tree != nil {
		add(func(c *C02Scenario) { c.Layout = Layout{}; c.Source = Print(c.Tree, c.Layout).Src })
	}
	add(func(c *C02Scenario) { c.Rep = RepStruct })
	add(func(c *C02Scenario) { c.Stateful = false })
	for _, e := range envShrinks(sc.Env) {
		e := e
		add(func(c *C02Scenario) { c.Env = e })
	}
	for i, p := range sc.Poison {
		if p.Kind != FPanicString {
			i := i
			add(func(c *C02Scenario) { c.Poison[i].Kind = FPanicString })
		}
	}
	_ = strings.Join
	return out
}
