package main

import (
	"fmt"

	"github.com/antonmedv/expr"
	"github.com/antonmedv/expr/vm"
)

// Outcome of one library call, observed under the harness's own recover.
type Outcome struct {
	Out      interface{}
	Err      error
	Panicked bool
	PanicVal string
	Steps    int // instructions executed (hook)
}

func (o Outcome) Failed() bool { return o.Err != nil || o.Panicked }

func (o Outcome) ErrText() string {
	if o.Panicked {
		return "PANIC: " + o.PanicVal
	}
	if o.Err != nil {
		return o.Err.Error()
	}
	return ""
}

// Key renders the outcome for equality comparisons between two executions of
// the same operation: value by kind and content, error by full text.
func (o Outcome) Key() string {
	if o.Panicked {
		return "panic(" + o.PanicVal + ")"
	}
	if o.Err != nil {
		return "err(" + o.Err.Error() + ")|" + Canon(o.Out)
	}
	return "ok(" + Canon(o.Out) + ")"
}

func sutCompile(src string, opts ...expr.Option) (p *vm.Program, out Outcome) {
	defer func() {
		if r := recover(); r != nil {
			p = nil
			out.Panicked = true
			out.PanicVal = fmt.Sprint(r)
		}
	}()
	p, err := expr.Compile(src, opts...)
	out.Err = err
	return p, out
}

// sutRun runs program on machine (nil = a fresh VM through expr.Run).
func sutRun(machine *vm.VM, program *vm.Program, env interface{}) (out Outcome) {
	steps0 := stepCount
	defer func() {
		out.Steps = stepCount - steps0
		if r := recover(); r != nil {
			out.Panicked = true
			out.PanicVal = fmt.Sprint(r)
		}
	}()
	if machine == nil {
		out.Out, out.Err = expr.Run(program, env)
	} else {
		out.Out, out.Err = machine.Run(program, env)
	}
	return out
}

func sutEval(src string, env interface{}) (out Outcome) {
	defer func() {
		if r := recover(); r != nil {
			out.Panicked = true
			out.PanicVal = fmt.Sprint(r)
		}
	}()
	out.Out, out.Err = expr.Eval(src, env)
	return out
}

// ---------------------------------------------------------------------------
// The hook: installed once, before anything runs, never written again.
// Its behaviour is driven by plain package-level data owned by the single
// running task (sequential engines) or by the scheduler (schedsim).
// ---------------------------------------------------------------------------

var (
	stepCount  int           // total instructions seen by the hook
	hookCalls  int           // probe: must be > 0 in every check that relies on the hook
	opcodeSeen [256]int      // coverage by opcode
	crashAt    int      = -1 // crash when the current run reaches this instruction index (0-based)
	runStep    int           // instruction index within the current run
	stepLimit  int           // >0: abort the run (liveness bound) when runStep exceeds it
	crashFired int
	// budgetFlipAt >= 0: when the current run reaches that instruction the caller's
	// configuration changes under it: vm.MemoryBudget becomes budgetFlipTo
	budgetFlipAt int = -1
	budgetFlipTo int
	budgetFlips  int
)

// InjectedCrash is the panic value used for a crash at an instruction boundary.
type InjectedCrash struct{ At int }

func (c InjectedCrash) String() string { return fmt.Sprintf("injected crash at instruction %d", c.At) }

// LivenessAbort is the panic value used when a run exceeds its step bound.
type LivenessAbort struct{ Steps int }

func (l LivenessAbort) String() string {
	return fmt.Sprintf("main.LivenessAbort: step bound exceeded after %d instructions", l.Steps)
}

func installHook() {
	vm.SimStep = func(m *vm.VM, pp int, op byte) {
		if S != nil {
			schedHook(op)
			return
		}
		stepCount++
		hookCalls++
		opcodeSeen[op]++
		k := runStep
		runStep++
		if budgetFlipAt >= 0 && k == budgetFlipAt {
			vm.MemoryBudget = budgetFlipTo
			budgetFlips++
		}
		if crashAt >= 0 && k == crashAt {
			crashFired++
			panic(InjectedCrash{At: k})
		}
		if stepLimit > 0 && k > stepLimit {
			panic(LivenessAbort{Steps: k})
		}
	}
}

// beginRun resets the per-run hook state.
func beginRun(crash int, limit int) {
	runStep = 0
	crashAt = crash
	stepLimit = limit
	budgetFlipAt = -1
}
