package main

import (
	"encoding/json"
	"fmt"
	"runtime/debug"
	"strings"
	"time"

	"github.com/antonmedv/expr"
	"github.com/antonmedv/expr/ast"
	"github.com/antonmedv/expr/parser"
	"github.com/antonmedv/expr/vm"
)

// ---------------------------------------------------------------------------
// C04 (scoped to fault containment): Parse, Compile, Eval, Run and (*VM).Run
// are called under the harness's own recover while a fault is injected at
// every seam the library has:
//   - external call k fails (every k x every fault kind)
//   - a ConstExpr call fails at compile time
//   - the run is crashed at instruction k (verif hook; every k)
//   - one environment datum is bad; the whole environment value is wrong
//   - the source text ends at every byte offset (prefix and suffix) or has
//     seeded byte edits (invalid UTF-8 included)
//   - a patch visitor replaces the k-th visited node by a well-formed subtree
//     of another kind / static type
//   - option subsets, including ConstExpr / Operator on absent names
// Oracles: no panic escapes; an error comes with a nil value/program; a program
// returned without error runs (to a value or an error) without panicking; no
// run exceeds its step bound and no call exceeds the wall-clock watchdog.
// ---------------------------------------------------------------------------

type C04Opt struct {
	NoEnv          bool     `json:"no_env,omitempty"`
	AllowUndefined bool     `json:"allow_undefined,omitempty"`
	NoOptimize     bool     `json:"no_optimize,omitempty"`
	Expect         string   `json:"expect,omitempty"` // bool | int64 | float64
	ConstExpr      []string `json:"const_expr,omitempty"`
	OperatorOp     string   `json:"operator,omitempty"`
	OperatorFns    []string `json:"operator_fns,omitempty"`
}

type SrcEdit struct {
	Kind string `json:"kind"` // replace | insert | delete | insert-str
	Pos  int    `json:"pos"`
	Byte int    `json:"byte"`
	Str  string `json:"str,omitempty"` // insert-str: a multi-byte token (comment openers, operators, quotes)
}

type C04Scenario struct {
	Seed     uint64      `json:"seed"`
	Index    int         `json:"index"`
	Rep      string      `json:"env_representation"`
	Stateful bool        `json:"stateful_functions"`
	Layout   Layout      `json:"layout"`
	Tree     *N          `json:"tree"`
	Env      *EnvData    `json:"env"`
	Faults   []CallFault `json:"call_faults"`
	Crashes  []int       `json:"crash_points"` // -2 = every instruction of the trace
	Options  []C04Opt    `json:"option_sets"`
	Edits    [][]SrcEdit `json:"source_edits"`
	Truncate bool        `json:"truncate_at_every_offset"`
	Visitor  [][2]int    `json:"visitor_replacements"` // (k-th visited node, replacement kind); k=-1: every k
	Nest     [2]int      `json:"nesting,omitempty"`    // (template, depth) of the deep-nesting source fed under every option set
	RawSrc   string      `json:"raw_source,omitempty"` // shrinking: use this source text instead of printing Tree
	Source   string      `json:"source_text,omitempty"`
}

func (sc *C04Scenario) clone() *C04Scenario {
	b, _ := json.Marshal(sc)
	var c C04Scenario
	json.Unmarshal(b, &c)
	return &c
}

type c04Engine struct{}

func init() { register(c04Engine{}) }

func (c04Engine) Property() string { return "C04" }
func (c04Engine) Name() string     { return "envsim/fault-containment" }
func (c04Engine) Level() string    { return "fault_enumeration" }
func (c04Engine) Count(tier string) int {
	if tier == "thorough" {
		return 60000
	}
	return 3000
}
func (c04Engine) Rule() string {
	return "Scenario i from H(VERIF_SEED,'C04',i): a typed random program of the mini-expr fragment (with external calls, closures, ConstExpr candidates), an environment, and fault plans for every seam: (1) each call index k of the reference journal x fault kind (thorough: all 8 kinds; quick: 2 seeded kinds) on fresh and reused VMs; (2) a crash injected by the verif hook at EVERY instruction of the dynamic trace (<= 400; sampled beyond), then a probe run on the same VM; (3) five bad-datum variants plus wrong environment values (nil, empty struct, empty map, map missing members); (4) the source cut at EVERY byte offset (prefixes and suffixes, splitting multi-byte runes) and 3-6 seeded byte-edit sets (replace/insert/delete, invalid UTF-8 bytes), each fed to Parse, Compile with and without Env, and Eval; (5) a patch visitor replacing the k-th visited node (every k <= 40) by well-formed subtrees of other kinds and static types; (6) a construct nested 32-64 levels inside itself (22 templates: elvis, conditionals, calls, literals, operators, member chains, slices) under every option subset: work that doubles per level is a hang; (7) 6 seeded option subsets of {no Env, AllowUndefinedVariables, Optimize(false), AsBool/AsInt64/AsFloat64, ConstExpr on present, absent and non-function names, Operator on present, absent and ill-shaped functions}. One evaluation = one library call under recover. Non-trivial = the call ran with a fault actually injected (fault fired / mutated source / replaced node / option set other than plain Env); distinct = distinct (api, source text, options, fault) signatures."
}
func (c04Engine) Assumptions() []string {
	return []string{
		"scoped to fault containment at the library's seams; 'all byte strings up to 64 KiB' as a coverage-guided search is fuzzing and is not decided here",
		"visitors that build malformed trees (nil children, foreign Node implementations) are a broken caller and are not injected",
		"hang detection: runs are cut at 10^4 + 10^3*n hook steps (n = fault-free trace length); Parse/Compile/Eval are watched by a 20 s wall-clock timer, three orders of magnitude above anything observed",
	}
}
func (c04Engine) Required(tier string) []string {
	return []string{"hook_calls", "calls/parse", "calls/compile", "calls/eval", "calls/run", "fault/call_fired", "fault/crash_fired", "fault/data_variant", "fault/wrong_env", "fault/source_truncated", "fault/source_edited", "fault/invalid_utf8", "fault/visitor_replaced", "fault/option_sets", "fault/deep_nesting", "fault/constexpr_absent_name", "fault/constexpr_call_failed", "errors_returned", "programs_run_after_faulty_compile"}
}
func (c04Engine) Decode(raw []byte) (interface{}, error) {
	var sc C04Scenario
	err := json.Unmarshal(raw, &sc)
	return &sc, err
}

var editBytes = []byte("(){}[]?:.,#\"'\\| &=!<>*/%+-~^@$`_;0123456789aeExXnot in\n\t\xff\x80\xc3\xe6\x00")

var editStrs = []string{"/*", "*/", "//", "/**/", "/*/", "#", "..", "?.", "?:", "**", "not in", " in ", "\\\"", "'", "0x", "1e", "1e+", "{", "}}", "(((", "|", "&&", "nil", "\n//", "\xf0\x9f", "\u00e9", "\u0663", "\uff15", "A\u0663", "\r", "`", "``"}

func (c04Engine) Gen(seed uint64, idx int, tier string) interface{} {
	r := NewRNG(seed)
	sc := &C04Scenario{Seed: seed, Index: idx}
	sc.Env = GenEnvData(r)
	sc.Rep = []string{RepStruct, RepPtr, RepMap}[r.Intn(3)]
	sc.Stateful = r.Chance(1, 2)
	sc.Layout = Layout{Mode: r.Intn(3), Salt: r.Next()}
	cfg := GenCfg{Budget: r.Range(4, 30), Calls: true, Dyn: r.Chance(1, 2), Failing: true, Strings: true, Closures: r.Chance(3, 4), Maps: r.Chance(1, 2),
		Objects: r.Chance(2, 3), ShortPred: r.Chance(1, 2), NilSafe: r.Chance(1, 2), SliceCall: true, ConstFns: r.Chance(1, 2)}
	cfg.AnyUsable = sc.Rep != RepMap || (sc.Env.Any != nil && sc.Env.Any.Kind == "int")
	cfg.MapRep = sc.Rep == RepMap
	g := NewGen(r.Fork(), cfg)
	sc.Tree = genRoot(g, r)
	sc.Source = Print(sc.Tree, sc.Layout).Src

	w := NewWorld(sc.Stateful, nil, nil)
	ref := NewRef(BuildEnv(w, sc.Env))
	ref.Eval(sc.Tree)
	n := len(w.Journal)
	fr := r.Fork()
	for k := 0; k < n && k < 24; k++ {
		if tier == "thorough" {
			for _, kind := range allFaultKinds {
				sc.Faults = append(sc.Faults, CallFault{Idx: k, Kind: kind})
			}
		} else {
			for j := 0; j < 2; j++ {
				sc.Faults = append(sc.Faults, CallFault{Idx: k, Kind: allFaultKinds[fr.Intn(len(allFaultKinds))]})
			}
		}
	}
	sc.Crashes = []int{-2}
	sc.Truncate = true
	ne := 3
	if tier == "thorough" {
		ne = 6
	}
	for e := 0; e < ne; e++ {
		var es []SrcEdit
		for j := 0; j <= fr.Intn(3); j++ {
			e := SrcEdit{Kind: []string{"replace", "insert", "delete", "insert-str"}[fr.Intn(4)], Pos: fr.Intn(len(sc.Source) + 1), Byte: int(editBytes[fr.Intn(len(editBytes))])}
			if e.Kind == "insert-str" {
				e.Str = editStrs[fr.Intn(len(editStrs))]
			}
			es = append(es, e)
		}
		sc.Edits = append(sc.Edits, es)
	}
	if tier == "thorough" {
		for rk := 0; rk < nReplacementKinds; rk++ {
			sc.Visitor = append(sc.Visitor, [2]int{-1, rk})
		}
	} else {
		for j := 0; j < 3; j++ {
			sc.Visitor = append(sc.Visitor, [2]int{-1, fr.Intn(nReplacementKinds)})
		}
	}
	names := []string{"CI", "CS", "CB", "C64", "F1", "Nope", "A", "Xs", "Fn", "Va", "", "Any", "On", "Tup", "CN", "CP", "CL", "Nest"}
	opFns := []string{"OpA", "OpB", "F1", "F2", "Nope", "A", "G0", "CS", "Any", "On", "Mp", "Fn", "An", "Va", "Tup", "CN", "CP", "PtrM"}
	for j := 0; j < 6; j++ {
		var o C04Opt
		o.NoEnv = fr.Chance(1, 6)
		o.AllowUndefined = fr.Chance(1, 3)
		o.NoOptimize = fr.Chance(1, 3)
		switch fr.Intn(6) {
		case 0:
			o.Expect = "bool"
		case 1:
			o.Expect = "int64"
		case 2:
			o.Expect = "float64"
		}
		for fr.Chance(1, 2) && len(o.ConstExpr) < 3 {
			o.ConstExpr = append(o.ConstExpr, names[fr.Intn(len(names))])
		}
		if fr.Chance(1, 3) {
			o.OperatorOp = []string{"+", "-", "==", "!=", "**", "in", "<", "and", "%%", ""}[fr.Intn(10)]
			for k := 0; k <= fr.Intn(2); k++ {
				o.OperatorFns = append(o.OperatorFns, opFns[fr.Intn(len(opFns))])
			}
		}
		sc.Options = append(sc.Options, o)
	}
	sc.Nest = [2]int{fr.Intn(len(nestTemplates)), fr.Range(32, 64)}
	return sc
}

// nestTemplates: one construct nested inside itself (prefix^d core suffix^d). Work
// that doubles per level turns a few hundred bytes of input into a hang; work that
// is linear per level finishes in microseconds at these depths.
var nestTemplates = [][3]string{
	{"(", "P", " ?: true)"},
	{"(", "P", " ? true : false)"},
	{"P ? (", "1", ") : 2"},
	{"Q ? 2 : (", "1", ")"},
	{"F1(", "A", ")"},
	{"[", "1", "]"},
	{"-", "A", ""},
	{"not ", "P", ""},
	{"{a: ", "1", "}"},
	{"(A + ", "1", ")"},
	{"(", "A", " + 1)"},
	{"O", "", ".Next"},
	{"O", "", "?.Next"},
	{"(", "CB(true)", " ?: CB(false))"},
	{"(", "P", " and Q)"},
	{"(", "A", " in [1, 2] ? 1 : 2)"},
	{"(", "A", " in 1..3 ? 1 : 2)"},
	{"Xs[", "0", ":][0]"},
	{"Any?.a[", "0", "]"},
	{"Tup(", "A", ", 1)[0]"},
	{"len(", "\"s\"", " + \"s\")"},
	{"(", "S", " matches \"a\" ? \"a\" : \"b\")"},
}

func nestSource(n [2]int) string {
	if n[1] <= 0 || n[0] < 0 || n[0] >= len(nestTemplates) {
		return ""
	}
	t := nestTemplates[n[0]]
	return strings.Repeat(t[0], n[1]) + t[1] + strings.Repeat(t[2], n[1])
}

const nReplacementKinds = 14

func replacementNode(kind int) ast.Node {
	one := func() ast.Node { return &ast.IntegerNode{Value: 7} }
	str := func() ast.Node { return &ast.StringNode{Value: "é"} }
	switch kind {
	case 0:
		return one()
	case 1:
		return str()
	case 2:
		return &ast.NilNode{}
	case 3:
		return &ast.BoolNode{Value: true}
	case 4:
		return &ast.IdentifierNode{Value: "Xs"}
	case 5:
		return &ast.ArrayNode{Nodes: []ast.Node{one(), str()}}
	case 6:
		return &ast.BinaryNode{Operator: "+", Left: one(), Right: str()}
	case 7:
		return &ast.FunctionNode{Name: "F1", Arguments: []ast.Node{&ast.IntegerNode{Value: 1}}}
	case 8:
		return &ast.IdentifierNode{Value: "Missing"}
	case 9:
		return &ast.ConstantNode{Value: []int{1, 2}}
	case 10:
		return &ast.PointerNode{}
	case 12:
		return &ast.ConstantNode{Value: nil}
	case 13:
		return &ast.ConstantNode{Value: map[string]interface{}{"k": []int{1}}}
	default:
		return &ast.FloatNode{Value: 1.5}
	}
}

type replaceVisitor struct {
	k, n, kind int
	done       bool
}

func (v *replaceVisitor) Enter(*ast.Node) {}
func (v *replaceVisitor) Exit(node *ast.Node) {
	if v.n == v.k && !v.done {
		v.done = true
		ast.Patch(node, replacementNode(v.kind))
	}
	v.n++
}

type countVisitor struct{ n int }

func (v *countVisitor) Enter(*ast.Node) {}
func (v *countVisitor) Exit(*ast.Node)  { v.n++ }

// guarded runs f under recover and a wall-clock watchdog. It returns the
// escaped panic (with the first library frame of its stack) if any.
type guardResult struct {
	panicked bool
	panicVal string
	site     string
	hung     bool
}

var c04Hung bool // a leaked spinning goroutine exists: stop the worker after reporting

func guarded(f func()) (g guardResult) {
	done := make(chan guardResult, 1)
	go func() {
		var r guardResult
		defer func() {
			if p := recover(); p != nil {
				r.panicked = true
				r.panicVal = fmt.Sprint(p)
				r.site = firstLibFrame(string(debug.Stack()))
			}
			done <- r
		}()
		f()
	}()
	select {
	case g = <-done:
		return g
	case <-time.After(20 * time.Second):
		c04Hung = true
		return guardResult{hung: true}
	}
}

func firstLibFrame(stack string) string {
	lines := strings.Split(stack, "\n")
	for _, l := range lines {
		if strings.HasPrefix(l, "github.com/antonmedv/expr") && !strings.Contains(l, "panic") {
			l = strings.TrimPrefix(l, "github.com/antonmedv/expr")
			l = strings.TrimPrefix(l, "/")
			if i := strings.LastIndex(l, "("); i > 0 {
				l = l[:i]
			}
			if l == "" {
				continue
			}
			return l
		}
	}
	return "unknown"
}

func isNilValue(v interface{}) bool { return v == nil }

func (c04Engine) Run(sci interface{}, ctx *RunCtx) *Finding {
	sc := sci.(*C04Scenario)
	pr := Print(sc.Tree, sc.Layout)
	src := pr.Src
	if sc.RawSrc != "" {
		src = sc.RawSrc
	}
	ctx.Logf("source %q rep=%s stateful=%v", src, sc.Rep, sc.Stateful)

	head := func() string { return fmt.Sprintf("source: %q\nenv: %s rep=%s", src, sc.Env, sc.Rep) }
	var finding *Finding
	fail := func(class, detail string) {
		if finding == nil {
			finding = &Finding{Class: "C04/" + class, Detail: detail + "\n" + head()}
		}
	}

	// --- API wrappers applying the oracles --------------------------------
	mkEnv := func(d *EnvData, faults []CallFault, poison []PoisonFault, phase string) (interface{}, *World) {
		w := NewWorld(sc.Stateful, faults, poison)
		if phase != "" {
			w.Phase = phase
		}
		return BuildEnv(w, d).AsRep(sc.Rep), w
	}
	doParse := func(label, s string) {
		var tree *parser.Tree
		var err error
		g := guarded(func() { tree, err = parser.Parse(s) })
		ctx.Eval()
		ctx.Count("calls/parse", 1)
		switch {
		case g.hung:
			fail("hang/parse", label+": parser.Parse did not return within 20 s")
		case g.panicked:
			fail("panic-escaped/parse/"+g.site, fmt.Sprintf("%s: parser.Parse(%q) panicked: %s", label, s, g.panicVal))
		case err != nil && tree != nil:
			fail("value-with-error/parse", fmt.Sprintf("%s: parser.Parse(%q) returned a tree together with error %v", label, s, err))
		case err == nil && (tree == nil || tree.Node == nil):
			fail("nil-without-error/parse", fmt.Sprintf("%s: parser.Parse(%q) returned neither a tree nor an error", label, s))
		}
		if err != nil {
			ctx.Count("errors_returned", 1)
		}
	}
	doRun := func(label string, machine *vm.VM, prog *vm.Program, envv interface{}, crash int, limit int) (out interface{}, err error, steps int) {
		beginRun(crash, limit)
		s0 := stepCount
		g := guarded(func() {
			if machine == nil {
				out, err = expr.Run(prog, envv)
			} else {
				out, err = machine.Run(prog, envv)
			}
		})
		steps = stepCount - s0
		ctx.Eval()
		ctx.Count("calls/run", 1)
		switch {
		case g.hung:
			fail("hang/run", label+": Run did not return within 20 s")
		case g.panicked:
			fail("panic-escaped/run/"+g.site, fmt.Sprintf("%s: Run panicked: %s", label, g.panicVal))
		case err != nil && out != nil:
			fail("value-with-error/run", fmt.Sprintf("%s: Run returned value %s together with error %v", label, Canon(out), firstLine(err.Error())))
		case err != nil && strings.Contains(err.Error(), "main.LivenessAbort"):
			fail("no-progress/run", fmt.Sprintf("%s: the run exceeded its step bound (%d instructions)", label, steps))
		}
		if err != nil {
			ctx.Count("errors_returned", 1)
		}
		return
	}
	doCompile := func(label, s string, sampleWorld *World, opts ...expr.Option) *vm.Program {
		var prog *vm.Program
		var err error
		g := guarded(func() { prog, err = expr.Compile(s, opts...) })
		ctx.Eval()
		ctx.Count("calls/compile", 1)
		switch {
		case g.hung:
			fail("hang/compile", label+": Compile did not return within 20 s")
		case g.panicked:
			fail("panic-escaped/compile/"+g.site, fmt.Sprintf("%s: Compile(%q) panicked: %s", label, s, g.panicVal))
		case err != nil && prog != nil:
			fail("value-with-error/compile", fmt.Sprintf("%s: Compile(%q) returned a program together with error %v", label, s, firstLine(err.Error())))
		case err == nil && prog == nil:
			fail("nil-without-error/compile", fmt.Sprintf("%s: Compile(%q) returned neither a program nor an error", label, s))
		}
		if err != nil {
			ctx.Count("errors_returned", 1)
			return nil
		}
		if g.panicked || g.hung {
			return nil
		}
		return prog
	}
	doEval := func(label, s string, envv interface{}) {
		var out interface{}
		var err error
		beginRun(-1, 2000000)
		g := guarded(func() { out, err = expr.Eval(s, envv) })
		ctx.Eval()
		ctx.Count("calls/eval", 1)
		switch {
		case g.hung:
			fail("hang/eval", label+": Eval did not return within 20 s")
		case g.panicked:
			fail("panic-escaped/eval/"+g.site, fmt.Sprintf("%s: Eval(%q) panicked: %s", label, s, g.panicVal))
		case err != nil && out != nil:
			fail("value-with-error/eval", fmt.Sprintf("%s: Eval(%q) returned value %s together with error %v", label, s, Canon(out), firstLine(err.Error())))
		case err != nil && strings.Contains(err.Error(), "main.LivenessAbort"):
			fail("no-progress/eval", fmt.Sprintf("%s: Eval(%q) exceeded 2000000 instructions", label, s))
		}
		if err != nil {
			ctx.Count("errors_returned", 1)
		}
	}
	nontrivial := func(api, s, what string) {
		ctx.Nontrivial(api + "|" + s + "|" + what)
	}

	// --- 0. baseline ------------------------------------------------------
	sample, sw := mkEnv(sc.Env, nil, nil, "compile")
	prog := doCompile("plain", src, sw, expr.Env(sample))
	if finding != nil {
		return finding
	}
	baseSteps := 1000
	if prog != nil {
		envv, _ := mkEnv(sc.Env, nil, nil, "")
		_, _, st := doRun("fault-free", nil, prog, envv, -1, 0)
		baseSteps = st
	}
	limit := 10000 + 1000*baseSteps

	// --- 1. failing external calls ---------------------------------------
	if prog != nil {
		reused := &vm.VM{}
		for _, fl := range sc.Faults {
			for _, machine := range []*vm.VM{nil, reused} {
				envv, w := mkEnv(sc.Env, []CallFault{fl}, nil, "")
				doRun(fmt.Sprintf("call fault %+v", fl), machine, prog, envv, -1, limit)
				if len(w.Fired) > 0 {
					ctx.Count("fault/call_fired", 1)
					nontrivial("run", src, fmt.Sprint(fl, machine != nil))
				}
				if finding != nil {
					return finding
				}
			}
		}
		// --- 2. crash at instruction k ----------------------------------
		for _, c := range sc.Crashes {
			ks := []int{c}
			if c == -2 {
				ks = ks[:0]
				n := baseSteps
				step := 1
				if n > 400 {
					step = n/400 + 1
				}
				for k := 0; k < n; k += step {
					ks = append(ks, k)
				}
			}
			for _, k := range ks {
				envv, _ := mkEnv(sc.Env, nil, nil, "")
				f0 := crashFired
				_, err, _ := doRun(fmt.Sprintf("crash at instruction %d", k), reused, prog, envv, k, limit)
				if crashFired > f0 {
					ctx.Count("fault/crash_fired", 1)
					nontrivial("run", src, fmt.Sprintf("crash@%d", k))
					if err == nil {
						fail("crash-swallowed/run", fmt.Sprintf("the run was crashed at instruction %d but returned no error", k))
					}
				}
				if finding != nil {
					return finding
				}
			}
			// the VM must be usable afterwards
			envv, _ := mkEnv(sc.Env, nil, nil, "")
			doRun("probe after crashes", reused, prog, envv, -1, limit)
		}
		// --- 3. bad data, wrong environment values -----------------------
		for _, v := range c13Variants {
			envv, _ := mkEnv(applyVariant(sc.Env, v), nil, nil, "")
			doRun("data variant "+v, nil, prog, envv, -1, limit)
			ctx.Count("fault/data_variant", 1)
			nontrivial("run", src, v)
		}
		type S struct{ A string }
		wrong := []interface{}{nil, struct{}{}, map[string]interface{}{}, map[string]interface{}{"A": "not an int", "Xs": 5, "F1": 7, "O": nil}, S{"x"}, &S{"y"}, 42, "env", []int{1}, (*Env)(nil)}
		for i, envv := range wrong {
			doRun(fmt.Sprintf("wrong environment value #%d (%T)", i, envv), nil, prog, envv, -1, limit)
			ctx.Count("fault/wrong_env", 1)
			nontrivial("run", src, fmt.Sprintf("wrong-env-%d", i))
		}
		if finding != nil {
			return finding
		}
	}

	// --- 4. the source text as a stream ----------------------------------
	var feed func(label, s string)
	defer func() { _ = feed }()
	feed = func(label, s string) {
		doParse(label, s)
		sample, sw := mkEnv(sc.Env, nil, nil, "compile")
		p1 := doCompile(label+" [Env]", s, sw, expr.Env(sample))
		p2 := doCompile(label+" [no Env]", s, nil)
		envv, _ := mkEnv(sc.Env, nil, nil, "")
		for _, p := range []*vm.Program{p1, p2} {
			if p != nil {
				doRun(label+" [run of the compiled program]", nil, p, envv, -1, 2000000)
				ctx.Count("programs_run_after_faulty_compile", 1)
			}
		}
		envv2, _ := mkEnv(sc.Env, nil, nil, "")
		doEval(label, s, envv2)
		nontrivial("parse+compile+eval", s, "")
		for i := 0; i < len(s); i++ {
			if s[i] >= 0x80 {
				if !validUTF8(s) {
					ctx.Count("fault/invalid_utf8", 1)
				}
				break
			}
		}
	}
	if sc.RawSrc != "" {
		feed("raw source", src)
		if finding != nil {
			return finding
		}
	}
	if sc.Truncate {
		for i := 0; i < len(src); i++ {
			feed(fmt.Sprintf("source cut after byte %d", i), src[:i])
			ctx.Count("fault/source_truncated", 1)
			if finding != nil {
				return finding
			}
			if i > 0 {
				feed(fmt.Sprintf("source starting at byte %d", i), src[i:])
				ctx.Count("fault/source_truncated", 1)
				if finding != nil {
					return finding
				}
			}
		}
	}
	for ei, es := range sc.Edits {
		s := applyEdits(src, es)
		feed(fmt.Sprintf("edit set %d %v", ei, es), s)
		ctx.Count("fault/source_edited", 1)
		if finding != nil {
			return finding
		}
	}

	// --- 5. node-replacing patch visitor ---------------------------------
	if len(sc.Visitor) > 0 {
		cv := &countVisitor{}
		sample, sw := mkEnv(sc.Env, nil, nil, "compile")
		doCompile("counting visitor", src, sw, expr.Env(sample), expr.Patch(cv))
		total := cv.n
		if total > 40 {
			total = 40
		}
		for _, vr := range sc.Visitor {
			ks := []int{vr[0]}
			if vr[0] < 0 {
				ks = ks[:0]
				for k := 0; k < total; k++ {
					ks = append(ks, k)
				}
			}
			for _, k := range ks {
				v := &replaceVisitor{k: k, kind: vr[1]}
				sample, sw := mkEnv(sc.Env, nil, nil, "compile")
				label := fmt.Sprintf("visitor replaces node %d by kind %d", k, vr[1])
				p := doCompile(label, src, sw, expr.Env(sample), expr.Patch(v))
				if v.done {
					ctx.Count("fault/visitor_replaced", 1)
					nontrivial("compile", src, label)
				}
				if p != nil {
					envv, _ := mkEnv(sc.Env, nil, nil, "")
					doRun(label+" [run]", nil, p, envv, -1, 2000000)
					ctx.Count("programs_run_after_faulty_compile", 1)
				}
				if finding != nil {
					return finding
				}
			}
		}
	}

	// --- 6. option subsets, ConstExpr failures -----------------------------
	for oi, o := range sc.Options {
		sample, sw := mkEnv(sc.Env, nil, nil, "compile")
		var opts []expr.Option
		envLast := oi%3 == 2 // the options in another order: Env after everything else
		if !o.NoEnv && !envLast {
			opts = append(opts, expr.Env(sample))
		}
		if o.AllowUndefined {
			opts = append(opts, expr.AllowUndefinedVariables())
		}
		if o.NoOptimize {
			opts = append(opts, expr.Optimize(false))
		}
		switch o.Expect {
		case "bool":
			opts = append(opts, expr.AsBool())
		case "int64":
			opts = append(opts, expr.AsInt64())
		case "float64":
			opts = append(opts, expr.AsFloat64())
		}
		for _, n := range o.ConstExpr {
			opts = append(opts, expr.ConstExpr(n))
			switch n {
			case "Nope", "":
				ctx.Count("fault/constexpr_absent_name", 1)
			}
		}
		if o.OperatorOp != "" || len(o.OperatorFns) > 0 {
			opts = append(opts, expr.Operator(o.OperatorOp, o.OperatorFns...))
		}
		if !o.NoEnv && envLast {
			opts = append(opts, expr.Env(sample))
		}
		label := fmt.Sprintf("option set %d %+v envLast=%v", oi, o, envLast)
		ctx.Count("fault/option_sets", 1)
		nontrivial("compile", src, label)
		p := doCompile(label, src, sw, opts...)
		if p != nil {
			envv, _ := mkEnv(sc.Env, nil, nil, "")
			doRun(label+" [run]", nil, p, envv, -1, 2000000)
			ctx.Count("programs_run_after_faulty_compile", 1)
		}
		// also the simplest sources under this option set (result directives on nil, literals)
		extra := []string{"nil", "1", "\"s\"", "[]", "{}", "Xs", "Any", "nil ?: 1", "#", "S in Pm", "\"k1\" in Pm", "A not in Pm", "Pm", "Lvl", "EmbV + Lvl", "a /*", "1 + 2 /* note", "/*/", "A // c",
			"-5000000000000000000..5000000000000000000", "len(1..9223372036854775807)", "A in -9223372036854775807..9223372036854775807", "(-9223372036854775808)..0", "1 + `", "`a` + `", "2 ** 1000", "10 ** 19", "A\u0663 > 1", "1 + \uff15", "CN(1)", "[CN(1)]", "CP(nil)", "PromV", "PromV + 1", "O ** O", "Va ** Va"}
		if o.OperatorOp != "" {
			// operands without a static type, dynamic operands and mismatched operands
			// around the overloaded operator
			for _, pair := range [][2]string{{"On", "nil"}, {"nil", "On"}, {"O?.Next", "O"}, {"O", "O?.Nope"}, {"Any", "1"}, {"A", "B"}, {"S", "nil"}, {"nil", "nil"}, {"O", "O.Next"}, {"Xs", "Mp"}} {
				extra = append(extra, pair[0]+" "+o.OperatorOp+" "+pair[1])
			}
		}
		if ns := nestSource(sc.Nest); ns != "" {
			extra = append(extra, ns)
			ctx.Count("fault/deep_nesting", 1)
		}
		for _, s := range extra {
			p := doCompile(label+" on "+s, s, sw, opts...)
			if p != nil {
				envv, _ := mkEnv(sc.Env, nil, nil, "")
				doRun(label+" on "+s+" [run]", nil, p, envv, -1, 2000000)
			}
		}
		if finding != nil {
			return finding
		}
	}
	// ConstExpr calls failing at compile time: every compile-phase call x 2 kinds
	{
		marks := []expr.Option{expr.ConstExpr("CI"), expr.ConstExpr("CS"), expr.ConstExpr("CB")}
		sample, sw := mkEnv(sc.Env, nil, nil, "compile")
		doCompile("ConstExpr marks", src, sw, append([]expr.Option{expr.Env(sample)}, marks...)...)
		n := len(sw.Journal)
		for k := 0; k < n && k < 12; k++ {
			for _, kind := range []string{FPanicString, FRuntimeNil, FPanicNil, FPanicError} {
				sample, sw := mkEnv(sc.Env, []CallFault{{Idx: k, Kind: kind}}, nil, "compile")
				label := fmt.Sprintf("ConstExpr call %d fails (%s)", k, kind)
				p := doCompile(label, src, sw, append([]expr.Option{expr.Env(sample)}, marks...)...)
				if len(sw.Fired) > 0 {
					ctx.Count("fault/constexpr_call_failed", 1)
					nontrivial("compile", src, label)
					if p != nil && kind != FPanicNil {
						fail("constexpr-failure-swallowed", label+": the compile-time call failed but Compile returned a program")
					}
				}
				if finding != nil {
					return finding
				}
			}
		}
	}
	if finding == nil {
		ctx.Sample(map[string]interface{}{"source": src, "call_faults": len(sc.Faults), "trace_length": baseSteps, "option_sets": sc.Options, "edit_sets": sc.Edits})
	}
	return finding
}

func validUTF8(s string) bool {
	for _, r := range s {
		if r == 0xFFFD {
			return false
		}
	}
	return true
}

func applyEdits(s string, es []SrcEdit) string {
	b := []byte(s)
	for _, e := range es {
		pos := e.Pos
		if pos > len(b) {
			pos = len(b)
		}
		switch e.Kind {
		case "replace":
			if pos < len(b) {
				b[pos] = byte(e.Byte)
			}
		case "insert":
			b = append(b[:pos:pos], append([]byte{byte(e.Byte)}, b[pos:]...)...)
		case "delete":
			if pos < len(b) {
				b = append(b[:pos:pos], b[pos+1:]...)
			}
		case "insert-str":
			b = append(b[:pos:pos], append([]byte(e.Str), b[pos:]...)...)
		}
	}
	return string(b)
}

func (c04Engine) Shrinks(sci interface{}) []interface{} {
	sc := sci.(*C04Scenario)
	var out []interface{}
	add := func(f func(c *C04Scenario)) {
		c := sc.clone()
		f(c)
		if mustJSONString(c) != mustJSONString(sc) {
			out = append(out, c)
		}
	}
	src := sc.RawSrc
	if src == "" {
		src = Print(sc.Tree, sc.Layout).Src
	}
	// switch whole seam families off
	if len(sc.Faults) > 0 {
		add(func(c *C04Scenario) { c.Faults = nil })
	}
	if len(sc.Crashes) > 0 {
		add(func(c *C04Scenario) { c.Crashes = nil })
	}
	if sc.Truncate {
		add(func(c *C04Scenario) { c.Truncate = false })
	}
	if len(sc.Edits) > 0 {
		add(func(c *C04Scenario) { c.Edits = nil })
	}
	if len(sc.Visitor) > 0 {
		add(func(c *C04Scenario) { c.Visitor = nil })
	}
	if len(sc.Options) > 0 {
		add(func(c *C04Scenario) { c.Options = nil })
	}
	if sc.Nest[1] > 0 {
		add(func(c *C04Scenario) { c.Nest = [2]int{} })
	}
	// a mutated source becomes the raw source of a scenario without source faults
	raw := func(s string) {
		add(func(c *C04Scenario) { c.RawSrc = s; c.Truncate = false; c.Edits = nil })
	}
	if sc.Truncate {
		for i := 0; i < len(src); i++ {
			raw(src[:i])
			if i > 0 {
				raw(src[i:])
			}
		}
	}
	for _, es := range sc.Edits {
		raw(applyEdits(src, es))
	}
	if sc.RawSrc != "" && !sc.Truncate && len(sc.Edits) == 0 {
		for j := 0; j < len(src) && j < 300; j++ {
			raw(src[:j] + src[j+1:])
		}
	}
	// single elements
	if len(sc.Faults) > 1 {
		for i := range sc.Faults {
			i := i
			add(func(c *C04Scenario) { c.Faults = []CallFault{sc.Faults[i]} })
		}
	}
	if len(sc.Edits) > 1 {
		for i := range sc.Edits {
			i := i
			add(func(c *C04Scenario) { c.Edits = [][]SrcEdit{sc.Edits[i]} })
		}
	}
	if len(sc.Options) > 1 {
		for i := range sc.Options {
			i := i
			add(func(c *C04Scenario) { c.Options = []C04Opt{sc.Options[i]} })
		}
	}
	if len(sc.Visitor) > 1 {
		for i := range sc.Visitor {
			i := i
			add(func(c *C04Scenario) { c.Visitor = [][2]int{sc.Visitor[i]} })
		}
	}
	for i, o := range sc.Options {
		i := i
		if len(o.ConstExpr) > 0 {
			add(func(c *C04Scenario) { c.Options[i].ConstExpr = nil })
			for j := range o.ConstExpr {
				j := j
				add(func(c *C04Scenario) { c.Options[i].ConstExpr = []string{o.ConstExpr[j]} })
			}
		}
		if o.OperatorOp != "" || len(o.OperatorFns) > 0 {
			add(func(c *C04Scenario) { c.Options[i].OperatorOp = ""; c.Options[i].OperatorFns = nil })
		}
		if o.Expect != "" {
			add(func(c *C04Scenario) { c.Options[i].Expect = "" })
		}
		if o.NoEnv || o.AllowUndefined || o.NoOptimize {
			add(func(c *C04Scenario) {
				c.Options[i].NoEnv, c.Options[i].AllowUndefined, c.Options[i].NoOptimize = false, false, false
			})
		}
	}
	for _, t := range treeShrinks(sc.Tree) {
		t := t
		add(func(c *C04Scenario) { c.Tree = t; c.Source = Print(t, c.Layout).Src })
	}
	add(func(c *C04Scenario) { c.Layout = Layout{}; c.Source = Print(c.Tree, c.Layout).Src })
	add(func(c *C04Scenario) { c.Rep = RepStruct })
	add(func(c *C04Scenario) { c.Stateful = false })
	for _, e := range envShrinks(sc.Env) {
		e := e
		add(func(c *C04Scenario) { c.Env = e })
	}
	return out
}
