package main

import (
	"syscall"
	"unsafe"
)

// ---------------------------------------------------------------------------
// schedsim's scheduler (DESIGN §2.4).
//
// Logical tasks are real goroutines, parked and released one at a time, so
// exactly one runs at any instant and the interleaving is the recorded
// schedule. The baton is a set of pipes driven by RAW read/write system calls
// inside //go:norace functions: the kernel serialises the tasks in real time
// but the race detector sees no happens-before edge between them, so a
// conflicting unsynchronised access by two tasks is still reported although
// the tasks never overlap. All scheduler state is touched only inside
// //go:norace functions; tasks share no other harness memory.
// ---------------------------------------------------------------------------

// Seg is one segment of a schedule: task T runs for N yield points (or until
// it finishes).
type Seg struct {
	T int `json:"t"`
	N int `json:"n"`
}

const (
	PolSeq     = "sequential"
	PolUniform = "uniform"
	PolBurst   = "burst"
	PolPCT     = "pct"
)

type schedTask struct {
	id      int
	r, w    int // wake pipe
	done    bool
	started bool
	quantum int
	prio    int
	steps   int // instructions executed by the current op
	yields  int
	abort   bool // step bound exceeded
	// bookkeeping
	segStart  int // value of yields when the task was last given the processor
	opYield0  int
	opSwitch0 int
}

type Sched struct {
	tasks        []*schedTask
	cur          *schedTask // nil while the main goroutine runs
	mainR, mainW int
	policy       string
	param        int
	rng          *RNG
	explicit     []Seg
	ei           int
	rec          []Seg
	yieldNo      int
	change       []int // PCT change points (ascending yield numbers)
	ci           int
	lowPrio      int
	switches     int
	sig          uint64
	stepBound    int
	mainSteps    int
	snapEvery    int
	onSnap       func(t *schedTask) // ordinary (instrumented) function, run by the yielding task
	hookCalls    int
	envYields, visitorYields int
}

// S is the scheduler of the scenario being executed (nil outside schedsim).
var S *Sched

//go:norace
func rawRead(fd int) {
	var b [1]byte
	for {
		n, _, e := syscall.Syscall(syscall.SYS_READ, uintptr(fd), uintptr(unsafe.Pointer(&b[0])), 1)
		if e == syscall.EINTR || e == syscall.EAGAIN {
			continue
		}
		if e != 0 || n != 1 {
			panic("schedsim: baton read failed")
		}
		return
	}
}

//go:norace
func rawWrite(fd int) {
	b := [1]byte{1}
	for {
		n, _, e := syscall.Syscall(syscall.SYS_WRITE, uintptr(fd), uintptr(unsafe.Pointer(&b[0])), 1)
		if e == syscall.EINTR || e == syscall.EAGAIN {
			continue
		}
		if e != 0 || n != 1 {
			panic("schedsim: baton write failed")
		}
		return
	}
}

func newSched(ntasks int, policy string, param int, rng *RNG, explicit []Seg, stepBound int) *Sched {
	s := &Sched{policy: policy, param: param, rng: rng, explicit: explicit, stepBound: stepBound}
	s.rec = make([]Seg, 0, 1<<16)
	var p [2]int
	if err := syscall.Pipe(p[:]); err != nil {
		infra("pipe: %v", err)
	}
	s.mainR, s.mainW = p[0], p[1]
	for i := 0; i < ntasks; i++ {
		var q [2]int
		if err := syscall.Pipe(q[:]); err != nil {
			infra("pipe: %v", err)
		}
		s.tasks = append(s.tasks, &schedTask{id: i, r: q[0], w: q[1], prio: 0})
	}
	return s
}

func (s *Sched) close() {
	syscall.Close(s.mainR)
	syscall.Close(s.mainW)
	for _, t := range s.tasks {
		syscall.Close(t.r)
		syscall.Close(t.w)
	}
}

//go:norace
func (s *Sched) runnable() int {
	n := 0
	for _, t := range s.tasks {
		if !t.done {
			n++
		}
	}
	return n
}

//go:norace
func (s *Sched) nthRunnable(k int) *schedTask {
	for _, t := range s.tasks {
		if !t.done {
			if k == 0 {
				return t
			}
			k--
		}
	}
	return nil
}

//go:norace
func (s *Sched) rngNext() uint64 {
	// SplitMix64 inlined here so that no instrumented code touches the
	// scheduler's random stream.
	s.rng.s += 0x9E3779B97F4A7C15
	z := s.rng.s
	z = (z ^ (z >> 30)) * 0xBF58476D1CE4E5B9
	z = (z ^ (z >> 27)) * 0x94D049BB133111EB
	return z ^ (z >> 31)
}

// pick decides which task runs next and for how many yield points. from is
// the task giving up the processor (nil when it has finished or at the start).
//
//go:norace
func (s *Sched) pick(from *schedTask) *schedTask {
	nr := s.runnable()
	if nr == 0 {
		return nil
	}
	var next *schedTask
	q := 1
	if s.ei < len(s.explicit) {
		seg := s.explicit[s.ei]
		s.ei++
		if seg.T >= 0 && seg.T < len(s.tasks) && !s.tasks[seg.T].done {
			next = s.tasks[seg.T]
		} else {
			next = s.nthRunnable(0)
		}
		q = seg.N
		if q < 1 {
			q = 1
		}
	} else {
		switch s.policy {
		case PolUniform:
			next = s.nthRunnable(int(s.rngNext() % uint64(nr)))
			q = 1
		case PolBurst:
			next = s.nthRunnable(int(s.rngNext() % uint64(nr)))
			// geometric run length with mean about param
			q = 1
			p := s.param
			if p < 2 {
				p = 2
			}
			for q < 4096 && s.rngNext()%uint64(p) != 0 {
				q++
			}
		case PolPCT:
			for _, t := range s.tasks {
				if !t.done && (next == nil || t.prio > next.prio) {
					next = t
				}
			}
			q = 1 << 30
		default: // sequential: the current task continues, otherwise the lowest-numbered one
			if from != nil && !from.done {
				next = from
			} else {
				next = s.nthRunnable(0)
			}
			q = 1 << 30
		}
	}
	next.quantum = q
	// Record a new segment when the processor changes hands; its length is
	// filled in (with the number of yield points actually consumed) when the
	// task gives the processor up, so that the recorded schedule replays
	// exactly whatever policy produced it.
	if from == nil || from != next {
		if len(s.rec) < cap(s.rec) {
			s.rec = append(s.rec, Seg{T: next.id, N: 1})
		}
		next.segStart = next.yields
	}
	return next
}

//go:norace
func (s *Sched) closeSeg(t *schedTask, extra int) {
	if n := len(s.rec); n > 0 && s.rec[n-1].T == t.id {
		s.rec[n-1].N = t.yields - t.segStart + extra
		if s.rec[n-1].N < 1 {
			s.rec[n-1].N = 1
		}
	}
}

// yield is a scheduling point of the running task. tag names the kind of
// point (an opcode, or one of the letters below) for the schedule signature.
//
//go:norace
func (s *Sched) yield(tag byte) {
	t := s.cur
	if t == nil {
		return
	}
	s.yieldNo++
	t.yields++
	if s.snapEvery > 0 && s.yieldNo%s.snapEvery == 0 && s.onSnap != nil {
		s.onSnap(t)
	}
	if s.policy == PolPCT && s.ei >= len(s.explicit) {
		for s.ci < len(s.change) && s.change[s.ci] <= s.yieldNo {
			s.ci++
			s.lowPrio--
			t.prio = s.lowPrio
			t.quantum = 0
		}
	}
	if t.quantum > 1 {
		t.quantum--
		return
	}
	s.closeSeg(t, 0) // provisional: right if the processor changes hands now
	next := s.pick(t)
	if next == t || next == nil {
		return
	}
	s.switches++
	s.sig = mix(s.sig, uint64(next.id)<<8|uint64(tag))
	s.cur = next
	rawWrite(next.w)
	rawRead(t.r)
}

// finish is called by a task after its last op.
//
//go:norace
func (s *Sched) finish(t *schedTask) {
	t.done = true
	s.closeSeg(t, 1)
	next := s.pick(nil)
	if next == nil {
		s.cur = nil
		rawWrite(s.mainW)
		return
	}
	s.switches++
	s.sig = mix(s.sig, uint64(next.id)<<8|uint64('F'))
	s.cur = next
	rawWrite(next.w)
}

// start is called by the main goroutine once all task goroutines exist; it
// returns when every task has finished.
//
//go:norace
func (s *Sched) start() {
	if len(s.tasks) == 0 {
		return
	}
	if s.policy == PolPCT {
		// random distinct initial priorities
		n := len(s.tasks)
		for i, t := range s.tasks {
			t.prio = i + 1
		}
		for i := n - 1; i > 0; i-- {
			j := int(s.rngNext() % uint64(i+1))
			s.tasks[i].prio, s.tasks[j].prio = s.tasks[j].prio, s.tasks[i].prio
		}
	}
	next := s.pick(nil)
	s.cur = next
	rawWrite(next.w)
	rawRead(s.mainR)
}

// park blocks the calling task goroutine until it is scheduled for the first
// time.
//
//go:norace
func (t *schedTask) park() { rawRead(t.r) }

// schedHook is what the verif hook does while schedsim runs.
//
//go:norace
func schedHook(op byte) {
	s := S
	s.hookCalls++
	t := s.cur
	if t == nil {
		s.mainSteps++
		return
	}
	t.steps++
	if s.stepBound > 0 && t.steps > s.stepBound {
		t.abort = true
		panic(LivenessAbort{Steps: t.steps})
	}
	s.yield(op)
}

//go:norace
func (s *Sched) takeMainSteps() int {
	n := s.mainSteps
	s.mainSteps = 0
	return n
}

//go:norace
func (s *Sched) current() *schedTask { return s.cur }
