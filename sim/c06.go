package main

import (
	"encoding/json"
	"fmt"
	"math"
	"sort"

	"github.com/antonmedv/expr"
	"github.com/antonmedv/expr/vm"
)

// C06: the memory budget as an injected allocation fault. The reference model
// yields the allocation trace a_1..a_n (sizes of every array, map and range
// built during evaluation, in order) and total T. The exhaustion fault is
// placed immediately before, at and after every allocation the run performs:
// budgets S_j-1, S_j, S_j+1 for every prefix sum S_j, plus T-1..T+2, 1, 2, a
// small random value and the default. Oracle (conservation): the run succeeds
// iff T < budget; on success the value is the reference value.

type C06Scenario struct {
	Seed     uint64   `json:"seed"`
	Index    int      `json:"index"`
	Rep      string   `json:"env_representation"`
	Optimize bool     `json:"optimize"`
	Reuse    bool     `json:"reused_vm"`
	Tree     *N       `json:"tree"`
	Env      *EnvData `json:"env"`
	Budgets  []int    `json:"budgets"`
	Source   string   `json:"source_text,omitempty"`
}

type c06Engine struct{}

func init() { register(c06Engine{}) }

func (c06Engine) Property() string { return "C06" }
func (c06Engine) Name() string     { return "envsim/allocation-profile" }
func (c06Engine) Level() string    { return "fault_enumeration" }
func (c06Engine) Count(tier string) int {
	if tier == "thorough" {
		return 120000
	}
	return 4000
}
func (c06Engine) Rule() string {
	return "Scenario i from H(VERIF_SEED,'C06',i): a program from the allocating sub-fragment (array and map literals with a non-constant element, ranges with at least one bound read from the environment - ascending, single-element, empty, descending -, map/filter results, nestings, conditionals choosing between allocations), compiled with optimisation on or off, on a fresh or reused VM. The reference evaluator gives the allocation trace; the run is repeated under EVERY budget in {S_j-1,S_j,S_j+1 for each prefix sum S_j} + {T-1,T,T+1,T+2,1,2,small random,1e6}. One evaluation = one run under one budget. Non-trivial = the program performs at least 2 allocations or has a descending range and the budget lies within [1, T+2]; distinct = distinct (source, environment, budget, optimise) signatures."
}
func (c06Engine) Assumptions() []string {
	return []string{
		"the reference evaluator's allocation trace states the definition: every array literal, map literal, run-time range and map/filter result counts its element count; a descending range counts 0",
		"constant literals the optimiser may build at compile time are excluded from the workloads (whether they are 'built during evaluation' depends on the optimiser)",
		"programs are otherwise failure-free, so budget exhaustion is the only possible failure",
	}
}
func (c06Engine) Required(tier string) []string {
	return []string{"hook_calls", "budget_fault_fired", "runs_at_boundary", "descending_ranges", "runs_succeeded", "multi_allocation_programs", "nested_allocations"}
}
func (c06Engine) Decode(raw []byte) (interface{}, error) {
	var sc C06Scenario
	err := json.Unmarshal(raw, &sc)
	return &sc, err
}

func genC06Tree(r *RNG) *N {
	if r.Chance(1, 3) {
		return genAllocProgram(r)
	}
	cfg := GenCfg{Budget: r.Range(4, 30), Calls: r.Chance(1, 2), Closures: true, Maps: true, AllocOnly: true, SliceCall: true, NarrowBounds: true}
	g := NewGen(r, cfg)
	switch r.Intn(10) {
	case 7:
		// the last allocations of the run are ranges, nothing allocates after them
		return nBin("+", nLen(g.rangeExpr()), nBin("*", nLen(g.rangeExpr()), nLen(g.rangeExpr())))
	case 8:
		// an allocating operand on the left of a connective whose right operand is a literal
		l := nBin(r.Pick([]string{">=", "<", "!="}), nLen(g.Seq()), nInt(r.Range(0, 3)))
		return nBin(r.Pick([]string{"or", "and", "||", "&&"}), l, nBool(r.Chance(1, 2)))
	case 9:
		return nCond(nBin(">", nLen(g.rangeExpr()), nInt(r.Range(0, 4))), nLen(g.Seq()), nLen(g.rangeExpr()))
	case 5:
		// an allocating operand next to a rewrite candidate: each allocation must be
		// charged once whatever the optimiser does with the membership test
		lo := r.Range(0, 3)
		return nBin(r.Pick([]string{"in", "not in"}), nLen(g.rangeExpr()), nBin("..", nInt(lo), nInt(lo+r.Range(0, 12))))
	case 6:
		return nArr(nBi("count", g.Seq(), g.closureBool("int")), nLen(g.rangeExpr()))
	case 0:
		return g.Seq()
	case 1:
		return nArr(nLen(g.Seq()), nLen(g.Seq()))
	case 2:
		return g.MapExpr()
	case 3:
		return nBi("map", g.rangeExpr(), g.closureInt("int"))
	default:
		return nLen(g.Seq())
	}
}

func (c06Engine) Gen(seed uint64, idx int, tier string) interface{} {
	r := NewRNG(seed)
	sc := &C06Scenario{Seed: seed, Index: idx}
	sc.Rep = []string{RepStruct, RepPtr, RepMap}[r.Intn(3)]
	sc.Optimize = !r.Chance(1, 3)
	sc.Reuse = r.Chance(1, 4)
	for attempt := 0; ; attempt++ {
		d := GenEnvData(r)
		d.N = r.Range(-2, 5)
		d.M = r.Range(-2, 12)
		d.A = r.Range(-3, 15)
		switch r.Intn(10) {
		case 0:
			d.M = r.Range(50, 300)
		case 1:
			d.N, d.M = r.Range(100, 1000000), r.Range(-5, 5) // steeply descending
		case 2:
			// extreme bounds: the element count does not fit an int
			ext := []int{math.MaxInt64, math.MaxInt64 - 1, math.MinInt64, math.MinInt64 + 1, math.MaxInt32, -math.MaxInt32, 1 << 62}
			switch r.Intn(3) {
			case 0:
				d.M = ext[r.Intn(len(ext))]
			case 1:
				d.N = ext[r.Intn(len(ext))]
			default:
				d.A = ext[r.Intn(len(ext))]
			}
		}
		if d.Z == 0 {
			d.Z = 1
		}
		tree := genC06Tree(r.Fork())
		w := NewWorld(false, nil, nil)
		ref := NewRef(BuildEnv(w, d))
		_, err := ref.Eval(tree)
		if err != nil && ref.Huge {
			// the workload needs a range beyond any budget: it must fail under every budget
			sc.Tree, sc.Env = tree, d
			sc.Budgets = []int{1, 2, r.Range(3, 500), defaultBudget}
			break
		}
		if err != nil && attempt < 20 {
			continue // only failure-free workloads: budget exhaustion must be the only possible failure
		}
		if err != nil {
			tree = nLen(nBin("..", nInt(1), nID("A")))
			d.A = 5
			ref = NewRef(BuildEnv(NewWorld(false, nil, nil), d))
			ref.Eval(tree)
		}
		sc.Tree, sc.Env = tree, d
		set := map[int]bool{}
		add := func(b int) {
			if b >= 1 {
				set[b] = true
			}
		}
		allocs := ref.Allocs
		if rootMembershipRange(tree) && sc.Optimize && len(allocs) > 0 {
			allocs = allocs[:len(allocs)-1]
		}
		s := 0
		for _, a := range allocs {
			s += a
			add(s - 1)
			add(s)
			add(s + 1)
		}
		add(s + 2)
		add(1)
		add(2)
		add(r.Range(1, 12))
		add(defaultBudget)
		for b := range set {
			sc.Budgets = append(sc.Budgets, b)
		}
		sort.Ints(sc.Budgets)
		if len(sc.Budgets) > 120 { // very long traces: keep the boundaries nearest the total and a spread
			keep := sc.Budgets[:40]
			keep = append(keep, sc.Budgets[len(sc.Budgets)-80:]...)
			sc.Budgets = keep
		}
		break
	}
	sc.Source = Print(sc.Tree, Layout{}).Src
	return sc
}

func (c06Engine) Run(sci interface{}, ctx *RunCtx) *Finding {
	sc := sci.(*C06Scenario)
	saved := vm.MemoryBudget
	defer func() { vm.MemoryBudget = saved }()
	src := Print(sc.Tree, Layout{}).Src
	w0 := NewWorld(false, nil, nil)
	sample := BuildEnv(w0, sc.Env).AsRep(sc.Rep)
	opts := []expr.Option{expr.Env(sample)}
	if !sc.Optimize {
		opts = append(opts, expr.Optimize(false))
	}
	rootRHS := rootMembershipRange(sc.Tree)
	checkTree := sc.Tree
	if rootRHS {
		checkTree = sc.Tree.C[0] // the literal range on the right of the root 'in' is handled below
	}
	if sc.Optimize && mayPrebuild(checkTree) {
		// A literal range or all-constant array may be built at compile time by
		// the optimiser; whether it is "built during evaluation" then depends on
		// the optimiser, so it is not a C06 workload (only shrinking produces these).
		ctx.Count("skipped_constant_collection", 1)
		return nil
	}
	prog, co := sutCompile(src, opts...)
	if co.Failed() {
		return &Finding{Class: "C06/compile-rejected", Detail: "Compile rejected a well-typed program of the fragment: " + co.ErrText() + "\nsource: " + src}
	}
	wr := NewWorld(false, nil, nil)
	ref := NewRef(BuildEnv(wr, sc.Env))
	refV, refErr := ref.Eval(sc.Tree)
	if refErr != nil && !ref.Huge {
		// Shrinking can produce such workloads; they are not C06 workloads.
		return nil
	}
	if ref.Huge {
		ctx.Count("huge_range_workloads", 1)
	}
	if rootRHS && sc.Optimize && len(ref.Allocs) > 0 && !ref.Huge {
		// 'x in <literal range>' at the root: with optimisation on the literal range is
		// either rewritten into comparisons or built at compile time - in both cases it
		// is not built during evaluation. It is the last allocation of the reference.
		ref.Allocs = ref.Allocs[:len(ref.Allocs)-1]
	}
	T := 0
	desc := 0
	for _, a := range ref.Allocs {
		T += a
	}
	sc.Tree.Walk(func(n *N) {
		if n.K == "bin" && n.S == ".." {
			desc++
		}
	})
	ctx.Logf("source %q optimize=%v rep=%s reuse=%v allocation trace %v total %d", src, sc.Optimize, sc.Rep, sc.Reuse, ref.Allocs, T)
	if len(ref.Allocs) >= 2 {
		ctx.Count("multi_allocation_programs", 1)
	}
	if nestedAlloc(sc.Tree) {
		ctx.Count("nested_allocations", 1)
	}
	hasDesc := false
	for _, a := range ref.Allocs {
		if a == 0 {
			hasDesc = true
		}
	}
	if hasDesc {
		ctx.Count("descending_ranges", 1)
	}
	var machine *vm.VM
	if sc.Reuse {
		machine = &vm.VM{}
	}
	for _, b := range sc.Budgets {
		vm.MemoryBudget = b
		w := NewWorld(false, nil, nil)
		envv := BuildEnv(w, sc.Env).AsRep(sc.Rep)
		beginRun(-1, 0)
		out := sutRun(machine, prog, envv)
		ctx.Eval()
		shouldFail := T >= b
		ctx.Logf("budget %d: %s (definition: %s)", b, outcomeText(out), map[bool]string{true: "must fail", false: "must succeed"}[shouldFail])
		if b >= T-1 && b <= T+1 {
			ctx.Count("runs_at_boundary", 1)
		}
		if (len(ref.Allocs) >= 2 || hasDesc) && b <= T+2 {
			ctx.Nontrivial(fmt.Sprintf("%s|%s|%d|%v", src, sc.Env, b, sc.Optimize))
		}
		if vm.MemoryBudget != b {
			return &Finding{Class: "C06/budget-variable-modified", Detail: fmt.Sprintf("the run changed vm.MemoryBudget from %d to %d\nsource: %s", b, vm.MemoryBudget, src)}
		}
		if out.Panicked {
			return &Finding{Class: "C06/panic-escaped", Detail: "a panic escaped: " + out.PanicVal + "\nsource: " + src}
		}
		failed := out.Err != nil
		if failed {
			// Workloads are failure-free by construction, so whatever the wording of the
			// error, a failure under a sufficient budget is a refusal (reported below).
			if shouldFail {
				ctx.Count("budget_fault_fired", 1)
			}
		} else {
			ctx.Count("runs_succeeded", 1)
		}
		switch {
		case shouldFail && !failed:
			feature := "/general"
			if hasDesc {
				feature = "/with-descending-range"
			}
			return &Finding{Class: "C06/completed-over-budget" + feature, Detail: fmt.Sprintf("budget %d: the run completed although evaluation creates %d >= %d collection elements (allocation trace %v)\nsource: %s\nenv: %s\noptimize=%v", b, T, b, ref.Allocs, src, sc.Env, sc.Optimize)}
		case !shouldFail && failed:
			return &Finding{Class: "C06/refused-under-budget", Detail: fmt.Sprintf("budget %d: the run was refused although evaluation creates only %d < %d collection elements (allocation trace %v)\nsource: %s\nenv: %s\noptimize=%v", b, T, b, ref.Allocs, src, sc.Env, sc.Optimize)}
		case !failed && Canon(out.Out) != Canon(refV):
			return &Finding{Class: "C06/wrong-value", Detail: fmt.Sprintf("budget %d: library returned %s, definition gives %s\nsource: %s", b, Canon(out.Out), Canon(refV), src)}
		}
		// The configuration changes while the run is in flight (another goroutine, or
		// a function the expression calls, sets vm.MemoryBudget): the run is bound by
		// the budget configured when it started. At the boundary budgets: raised to
		// "unlimited" under a run that must fail, lowered to 1 under one that must
		// succeed, at the first instruction and half-way.
		if b >= T-1 && b <= T+1 && out.Steps > 1 {
			for _, at := range []int{0, out.Steps / 2} {
				to := 1
				if shouldFail {
					to = 1 << 40
				}
				vm.MemoryBudget = b
				wf := NewWorld(false, nil, nil)
				envf := BuildEnv(wf, sc.Env).AsRep(sc.Rep)
				beginRun(-1, 0)
				budgetFlipAt, budgetFlipTo = at, to
				o := sutRun(machine, prog, envf)
				budgetFlipAt = -1
				ctx.Eval()
				ctx.Count("budget_changed_mid_run", 1)
				if o.Panicked {
					return &Finding{Class: "C06/panic-escaped", Detail: "a panic escaped: " + o.PanicVal + "\nsource: " + src}
				}
				if (o.Err != nil) != shouldFail {
					return &Finding{Class: "C06/budget-changed-mid-run-takes-effect", Detail: fmt.Sprintf("budget %d when the run started, set to %d at instruction %d of %d: %s; under the budget it started with the run %s (evaluation creates %d elements)\nsource: %s\nenv: %s\noptimize=%v",
						b, to, at, out.Steps, outcomeText(o), map[bool]string{true: "must fail", false: "must succeed"}[shouldFail], T, src, sc.Env, sc.Optimize)}
				}
			}
		}
	}
	ctx.Sample(map[string]interface{}{"source": src, "allocation_trace": ref.Allocs, "total": T, "budgets": sc.Budgets, "optimize": sc.Optimize})
	return nil
}

// rootMembershipRange: the tree is 'x in a..b' / 'x not in a..b' with constant bounds.
func rootMembershipRange(root *N) bool {
	if root.K != "bin" || (root.S != "in" && root.S != "not in") {
		return false
	}
	r := root.C[1]
	return r.K == "bin" && r.S == ".." && constOnly(r.C[0]) && constOnly(r.C[1])
}

// constOnly: the subtree mentions nothing but literals and arithmetic on them.
func constOnly(n *N) bool {
	switch n.K {
	case "int", "str", "bool":
		return true
	case "un":
		return constOnly(n.C[0])
	case "bin":
		if n.S == ".." {
			return false
		}
		return constOnly(n.C[0]) && constOnly(n.C[1])
	}
	return false
}

// mayPrebuild: the tree contains a collection the optimiser may build at
// compile time (a range with constant bounds, an array literal of constants).
func mayPrebuild(root *N) bool {
	found := false
	root.Walk(func(n *N) {
		if n.K == "bin" && n.S == ".." && constOnly(n.C[0]) && constOnly(n.C[1]) {
			found = true
		}
		if n.K == "arr" && len(n.C) > 0 {
			all := true
			for _, c := range n.C {
				if !constOnly(c) {
					all = false
				}
			}
			if all {
				found = true
			}
		}
	})
	return found
}

// nestedAlloc: an allocating construct inside a closure body.
func nestedAlloc(root *N) bool {
	found := false
	var rec func(n *N, inClosure bool)
	rec = func(n *N, inClosure bool) {
		alloc := n.K == "arr" || n.K == "map" || (n.K == "bin" && n.S == "..") || (n.K == "bi" && (n.S == "map" || n.S == "filter"))
		if alloc && inClosure {
			found = true
		}
		for i, c := range n.C {
			rec(c, inClosure || (n.K == "bi" && i == 1))
		}
	}
	rec(root, false)
	return found
}

func (c06Engine) Shrinks(sci interface{}) []interface{} {
	sc := sci.(*C06Scenario)
	var out []interface{}
	clone := func() *C06Scenario {
		b, _ := json.Marshal(sc)
		var c C06Scenario
		json.Unmarshal(b, &c)
		return &c
	}
	add := func(f func(c *C06Scenario)) {
		c := clone()
		f(c)
		if mustJSONString(c) != mustJSONString(sc) {
			out = append(out, c)
		}
	}
	if len(sc.Budgets) > 1 {
		for i := range sc.Budgets {
			i := i
			add(func(c *C06Scenario) { c.Budgets = []int{sc.Budgets[i]} })
		}
	}
	// a smaller tree changes the allocation trace: re-derive nothing, keep the
	// budgets as data and let the oracle decide
	for _, t := range treeShrinks(sc.Tree) {
		t := t
		add(func(c *C06Scenario) { c.Tree = t; c.Source = Print(t, Layout{}).Src })
	}
	add(func(c *C06Scenario) { c.Reuse = false })
	add(func(c *C06Scenario) { c.Rep = RepStruct })
	add(func(c *C06Scenario) { c.Optimize = true })
	for _, e := range envShrinks(sc.Env) {
		e := e
		add(func(c *C06Scenario) { c.Env = e })
	}
	if sc.Env.N > 20 {
		add(func(c *C06Scenario) { c.Env.N = sc.Env.N / 2 })
	}
	if sc.Env.M > 20 {
		add(func(c *C06Scenario) { c.Env.M = sc.Env.M / 2 })
	}
	for i, b := range sc.Budgets {
		if b > 3 && b != defaultBudget {
			i := i
			add(func(c *C06Scenario) { c.Budgets[i] = b - 1 })
		}
	}
	return out
}
