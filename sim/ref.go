package main

import (
	"fmt"
	"math"
	"reflect"
	"regexp"
	"strings"
)

// ---------------------------------------------------------------------------
// Reference evaluator for the mini-expr fragment (DESIGN §2.5). It interprets
// the harness's own tree against an environment bound to its *own* world
// instance, strictly left to right, and records:
//   - the value or the failure (and which node failed),
//   - the call journal (through the world),
//   - the allocation trace: the size of every array, map and range built
//     during evaluation, in order.
// It shares no code with the library.
// ---------------------------------------------------------------------------

type EvalError struct {
	Node *N
	Msg  string
	// External is true when the failure was raised inside an environment
	// function (an injected fault) rather than by the language semantics.
	External bool
	// inClosure is non-empty when the failure happened inside a closure body.
	inClosure string
}

func (e *EvalError) Error() string { return e.Msg }

type Ref struct {
	env        *Env
	Allocs     []int // allocation trace
	AllocNodes []*N  // the node that made each allocation
	// ConstFolded tells the evaluator which allocation sites the definition
	// does not count as run-time allocations (constant arrays / ranges are
	// built at compile time when optimisation is on). nil = count everything.
	stack []interface{} // closure elements, innermost last
	Steps int
	// MaxSteps / MaxAlloc bound the cost of a reference evaluation (0 = default).
	// Exceeding a bound is reported as a failure with TooBig set: generators
	// reject such workloads; it is never compared with the library.
	MaxSteps int
	MaxAlloc int
	total    int
	TooBig   bool
	// Huge: the evaluation had to create a range larger than any budget in use;
	// it fails by the definition (budget), whatever the budget.
	Huge bool
}

const refDefaultMaxSteps = 400000
const refDefaultMaxAlloc = 4000000

func (r *Ref) alloc(n *N, size int) *EvalError {
	r.Allocs = append(r.Allocs, size)
	r.AllocNodes = append(r.AllocNodes, n)
	r.total += size
	max := r.MaxAlloc
	if max == 0 {
		max = refDefaultMaxAlloc
	}
	if r.total > max {
		r.TooBig = true
		return r.fail(n, "reference allocation bound exceeded")
	}
	return nil
}

func NewRef(env *Env) *Ref { return &Ref{env: env} }

func (r *Ref) fail(n *N, format string, a ...interface{}) *EvalError {
	return &EvalError{Node: n, Msg: fmt.Sprintf(format, a...), inClosure: r.closureMark()}
}

// outside reports that the evaluation left the fragment the reference model
// defines (only shrinking produces such programs). Like a cost-bound overrun
// it means "no verdict": TooBig is set and no engine compares such a run with
// the library.
func (r *Ref) outside(n *N, format string, a ...interface{}) *EvalError {
	r.TooBig = true
	return r.fail(n, "outside the fragment: "+format, a...)
}

func (r *Ref) closureMark() string {
	if len(r.stack) > 0 {
		return fmt.Sprintf("depth%d", len(r.stack))
	}
	return ""
}

// Eval evaluates n; on failure the returned value is nil.
func (r *Ref) Eval(n *N) (v interface{}, err *EvalError) {
	r.Steps++
	maxSteps := r.MaxSteps
	if maxSteps == 0 {
		maxSteps = refDefaultMaxSteps
	}
	if r.Steps > maxSteps {
		r.TooBig = true
		return nil, r.fail(n, "reference step bound exceeded")
	}
	switch n.K {
	case "int":
		return n.I, nil
	case "bool":
		return n.B, nil
	case "str":
		return n.S, nil
	case "nil":
		return nil, nil
	case "id":
		return r.member(n, n.S)
	case "ptr":
		if len(r.stack) == 0 {
			return nil, r.outside(n, "# outside closure")
		}
		return r.stack[len(r.stack)-1], nil
	case "prop":
		recv, err := r.Eval(n.C[0])
		if err != nil {
			return nil, err
		}
		return r.prop(n, recv, n.S, n.B)
	case "meth":
		recv, err := r.Eval(n.C[0])
		if err != nil {
			return nil, err
		}
		args, err := r.evalArgs(n.C[1:])
		if err != nil {
			return nil, err
		}
		return r.method(n, recv, n.S, n.B, args)
	case "call":
		args, err := r.evalArgs(n.C)
		if err != nil {
			return nil, err
		}
		return r.call(n, n.S, args)
	case "un":
		a, err := r.Eval(n.C[0])
		if err != nil {
			return nil, err
		}
		switch n.S {
		case "not", "!":
			b, ok := a.(bool)
			if !ok {
				return nil, r.fail(n, "not on non-bool %T", a)
			}
			return !b, nil
		case "-":
			i, ok := a.(int)
			if !ok {
				return nil, r.fail(n, "negate on %T", a)
			}
			return -i, nil
		case "+":
			return a, nil
		}
		return nil, r.outside(n, "unknown unary %s", n.S)
	case "bin":
		return r.bin(n)
	case "cond":
		c, err := r.Eval(n.C[0])
		if err != nil {
			return nil, err
		}
		b, ok := c.(bool)
		if !ok {
			return nil, r.fail(n, "non-bool condition %T", c)
		}
		if b {
			return r.Eval(n.C[1])
		}
		return r.Eval(n.C[2])
	case "arr":
		out := make([]interface{}, 0, len(n.C))
		for _, c := range n.C {
			v, err := r.Eval(c)
			if err != nil {
				return nil, err
			}
			out = append(out, v)
		}
		if e := r.alloc(n, len(out)); e != nil {
			return nil, e
		}
		return out, nil
	case "map":
		out := make(map[string]interface{}, len(n.C))
		for _, p := range n.C {
			v, err := r.Eval(p.C[0])
			if err != nil {
				return nil, err
			}
			if _, dup := out[p.S]; !dup {
				// Every pair is evaluated; of two pairs with one key the first
				// keeps its place (the pinned tree's behaviour: the language
				// definition is silent on repeated keys).
				out[p.S] = v
			}
		}
		if e := r.alloc(n, len(n.C)); e != nil {
			return nil, e
		}
		return out, nil
	case "idx":
		a, err := r.Eval(n.C[0])
		if err != nil {
			return nil, err
		}
		i, err := r.Eval(n.C[1])
		if err != nil {
			return nil, err
		}
		return r.index(n, a, i)
	case "slice":
		return r.slice(n)
	case "bi":
		return r.builtin(n)
	}
	return nil, r.outside(n, "unknown node kind %s", n.K)
}

func (r *Ref) evalArgs(ns []*N) ([]interface{}, *EvalError) {
	out := make([]interface{}, 0, len(ns))
	for _, a := range ns {
		v, err := r.Eval(a)
		if err != nil {
			return nil, err
		}
		out = append(out, v)
	}
	return out, nil
}

func (r *Ref) member(n *N, name string) (interface{}, *EvalError) {
	e := r.env
	switch name {
	case "A":
		return e.A, nil
	case "B":
		return e.B, nil
	case "C":
		return e.C, nil
	case "D":
		return e.D, nil
	case "Z":
		return e.Z, nil
	case "N":
		return e.N, nil
	case "M":
		return e.M, nil
	case "K":
		return e.K, nil
	case "P":
		return e.P, nil
	case "Q":
		return e.Q, nil
	case "S":
		return e.S, nil
	case "T":
		return e.T, nil
	case "Re":
		return e.Re, nil
	case "Xs":
		return e.Xs, nil
	case "Ys":
		return e.Ys, nil
	case "Ss":
		return e.Ss, nil
	case "Mp":
		return e.Mp, nil
	case "O":
		return e.O, nil
	case "On":
		return e.On, nil
	case "Any":
		return e.Any, nil
	case "Objs":
		return e.Objs, nil
	case "Ob2":
		return e.Ob2, nil
	case "I8":
		return e.I8, nil
	case "U8":
		return e.U8, nil
	case "U16":
		return e.U16, nil
	case "I64":
		return e.I64, nil
	case "Info", "info":
		return e.Info, nil
	case "Index", "index":
		return e.Index, nil
	}
	return nil, r.outside(n, "unknown member %s", name)
}

func (r *Ref) prop(n *N, recv interface{}, name string, nilsafe bool) (interface{}, *EvalError) {
	if recv != nil && reflect.TypeOf(recv).Kind() == reflect.Struct {
		// the other struct type (Ob2): its members by name
		f := reflect.ValueOf(recv).FieldByName(name)
		if f.IsValid() {
			return f.Interface(), nil
		}
		if nilsafe {
			return nil, nil
		}
		return nil, r.fail(n, "no member %s", name)
	}
	o, ok := recv.(*Obj)
	if recv == nil || (ok && o == nil) {
		if nilsafe {
			return nil, nil
		}
		return nil, r.fail(n, "member %s of nil", name)
	}
	if !ok {
		if nilsafe {
			return nil, nil
		}
		return nil, r.fail(n, "member %s of %T", name, recv)
	}
	switch name {
	case "V":
		return o.V, nil
	case "Name":
		return o.Name, nil
	case "Xs":
		return o.Xs, nil
	case "Next":
		return o.Next, nil
	case "L":
		return o.L, nil
	case "F":
		return o.F, nil
	}
	if nilsafe {
		return nil, nil
	}
	return nil, r.fail(n, "no member %s", name)
}

// guard runs an environment function and converts a panic raised inside it
// into an evaluation failure at node n.
func (r *Ref) guard(n *N, f func() interface{}) (v interface{}, err *EvalError) {
	defer func() {
		if rec := recover(); rec != nil {
			v = nil
			err = &EvalError{Node: n, Msg: fmt.Sprintf("external failure: %v", rec), External: true, inClosure: r.closureMark()}
		}
	}()
	return f(), nil
}

func asInt(v interface{}) (int, bool) { i, ok := v.(int); return i, ok }

// refInt: the bounds of a range may be of any integer kind; each is converted to int.
func refInt(v interface{}) (int, bool) {
	switch x := v.(type) {
	case int:
		return x, true
	case int8:
		return int(x), true
	case int16:
		return int(x), true
	case int32:
		return int(x), true
	case int64:
		return int(x), true
	case uint8:
		return int(x), true
	case uint16:
		return int(x), true
	case uint32:
		return int(x), true
	}
	return 0, false
}

// untypedNil: the literal nil is passed to an interface{} parameter as a nil
// interface value.
func untypedNil(v interface{}) interface{} { return v }

func (r *Ref) method(n *N, recv interface{}, name string, nilsafe bool, args []interface{}) (interface{}, *EvalError) {
	o, ok := recv.(*Obj)
	if recv == nil {
		if nilsafe {
			return nil, nil
		}
		return nil, r.fail(n, "method %s of nil", name)
	}
	if !ok || o == nil {
		// A typed nil receiver is outside the fragment (the generator does not
		// produce it); treat as failure.
		return nil, r.fail(n, "method %s of %T", name, recv)
	}
	if name == "Sel" {
		if len(args) != 2 {
			return nil, r.fail(n, "arity")
		}
		a0, a1 := untypedNil(args[0]), untypedNil(args[1])
		return r.guard(n, func() interface{} { return o.Sel(a0, a1) })
	}
	if len(args) != 1 {
		return nil, r.fail(n, "arity")
	}
	a, ok := asInt(args[0])
	if !ok {
		return nil, r.fail(n, "argument type %T", args[0])
	}
	switch name {
	case "Get":
		return r.guard(n, func() interface{} { return o.Get(a) })
	case "Twice":
		return r.guard(n, func() interface{} { return o.Twice(a) })
	}
	return nil, r.fail(n, "no method %s", name)
}

func (r *Ref) call(n *N, name string, args []interface{}) (interface{}, *EvalError) {
	e := r.env
	ints := func(k int) ([]int, bool) {
		if len(args) != k {
			return nil, false
		}
		out := make([]int, k)
		for i, a := range args {
			v, ok := asInt(a)
			if !ok {
				return nil, false
			}
			out[i] = v
		}
		return out, true
	}
	switch name {
	case "F1":
		a, ok := ints(1)
		if !ok {
			return nil, r.fail(n, "bad arguments to F1")
		}
		return r.guard(n, func() interface{} { return e.F1(a[0]) })
	case "F2":
		a, ok := ints(2)
		if !ok {
			return nil, r.fail(n, "bad arguments to F2")
		}
		return r.guard(n, func() interface{} { return e.F2(a[0], a[1]) })
	case "G0":
		if len(args) != 0 {
			return nil, r.fail(n, "bad arguments to G0")
		}
		return r.guard(n, func() interface{} { return e.G0() })
	case "P1":
		a, ok := ints(1)
		if !ok {
			return nil, r.fail(n, "bad arguments to P1")
		}
		return r.guard(n, func() interface{} { return e.P1(a[0]) })
	case "Fn":
		a, ok := ints(1)
		if !ok {
			return nil, r.fail(n, "bad arguments to Fn")
		}
		return r.guard(n, func() interface{} { return e.Fn(a[0]) })
	case "CI":
		a, ok := ints(1)
		if !ok {
			return nil, r.fail(n, "bad arguments to CI")
		}
		return r.guard(n, func() interface{} { return e.CI(a[0]) })
	case "CB":
		a, ok := ints(2)
		if !ok {
			return nil, r.fail(n, "bad arguments to CB")
		}
		return r.guard(n, func() interface{} { return e.CB(a[0], a[1]) })
	case "Mk":
		a, ok := ints(1)
		if !ok {
			return nil, r.fail(n, "bad arguments to Mk")
		}
		return r.guard(n, func() interface{} { return e.Mk(a[0]) })
	case "S1", "CS":
		if len(args) != 1 {
			return nil, r.fail(n, "bad arguments to %s", name)
		}
		s, ok := args[0].(string)
		if !ok {
			return nil, r.fail(n, "bad arguments to %s", name)
		}
		if name == "S1" {
			return r.guard(n, func() interface{} { return e.S1(s) })
		}
		return r.guard(n, func() interface{} { return e.CS(s) })
	case "Va":
		return r.guard(n, func() interface{} { return e.Va(args...) })
	case "Nest":
		a, ok := ints(1)
		if !ok {
			return nil, r.fail(n, "bad arguments to Nest")
		}
		return r.guard(n, func() interface{} { return e.Nest(a[0]) })
	case "Tup":
		cp := append([]interface{}{}, args...)
		return r.guard(n, func() interface{} { return e.Tup(cp...) })
	case "An":
		if len(args) != 2 {
			return nil, r.fail(n, "bad arguments to An")
		}
		a0, a1 := untypedNil(args[0]), untypedNil(args[1])
		return r.guard(n, func() interface{} { return e.An(a0, a1) })
	case "C64":
		// Integer literals (and arithmetic on them) in an int64 parameter
		// position denote int64 values.
		if len(args) != 1 {
			return nil, r.fail(n, "bad arguments to C64")
		}
		var a int64
		switch x := args[0].(type) {
		case int:
			if !isLiteralArith(n.C[0]) {
				return nil, r.fail(n, "bad arguments to C64")
			}
			a = int64(x)
		case int64:
			a = x
		default:
			return nil, r.fail(n, "bad arguments to C64")
		}
		return r.guard(n, func() interface{} { return e.C64(a) })
	}
	return nil, r.outside(n, "unknown function %s", name)
}

// isLiteralArith: integer literals combined with unary +/- and + - * /.
func isLiteralArith(n *N) bool {
	switch n.K {
	case "int":
		return true
	case "un":
		return (n.S == "-" || n.S == "+") && isLiteralArith(n.C[0])
	case "bin":
		switch n.S {
		case "+", "-", "*", "/":
			return isLiteralArith(n.C[0]) && isLiteralArith(n.C[1])
		}
	}
	return false
}

func (r *Ref) bin(n *N) (interface{}, *EvalError) {
	op := n.S
	// Short-circuit connectives first: the right operand is evaluated only
	// when needed.
	if op == "and" || op == "&&" || op == "or" || op == "||" {
		a, err := r.Eval(n.C[0])
		if err != nil {
			return nil, err
		}
		ab, ok := a.(bool)
		if !ok {
			return nil, r.fail(n, "%s on non-bool %T", op, a)
		}
		if (op == "and" || op == "&&") && !ab {
			return false, nil
		}
		if (op == "or" || op == "||") && ab {
			return true, nil
		}
		b, err := r.Eval(n.C[1])
		if err != nil {
			return nil, err
		}
		// The value of the connective is the right operand's value; it is
		// only required to be a bool where something consumes it as one.
		return b, nil
	}
	a, err := r.Eval(n.C[0])
	if err != nil {
		return nil, err
	}
	b, err := r.Eval(n.C[1])
	if err != nil {
		return nil, err
	}
	switch op {
	case "**":
		// only the overloaded form is in the fragment: OpA applied to two *Obj
		x, ok1 := a.(*Obj)
		y, ok2 := b.(*Obj)
		if xi, ok := a.(int); ok {
			if yi, ok := b.(int); ok {
				return math.Pow(float64(xi), float64(yi)), nil // the power of two numbers is a float
			}
		}
		if !ok1 || !ok2 {
			return nil, r.outside(n, "** on %T, %T", a, b)
		}
		return r.guard(n, func() interface{} { return r.env.OpA(x, y) })
	case "+":
		if x, ok := a.(int); ok {
			if y, ok := b.(int); ok {
				return x + y, nil
			}
		}
		if x, ok := a.(string); ok {
			if y, ok := b.(string); ok {
				return x + y, nil
			}
		}
		return nil, r.fail(n, "invalid operands %T + %T", a, b)
	case "-", "*", "/", "%":
		x, ok1 := a.(int)
		y, ok2 := b.(int)
		if !ok1 || !ok2 {
			return nil, r.fail(n, "invalid operands %T %s %T", a, op, b)
		}
		switch op {
		case "-":
			return x - y, nil
		case "*":
			return x * y, nil
		case "/":
			if y == 0 {
				return nil, r.fail(n, "integer divide by zero")
			}
			return x / y, nil
		default:
			if y == 0 {
				return nil, r.fail(n, "integer divide by zero")
			}
			return x % y, nil
		}
	case "<", "<=", ">", ">=":
		if fx, isF := a.(float64); isF {
			// a float against an int: the int is promoted
			if y, ok := b.(int); ok {
				fy := float64(y)
				switch op {
				case "<":
					return fx < fy, nil
				case "<=":
					return fx <= fy, nil
				case ">":
					return fx > fy, nil
				default:
					return fx >= fy, nil
				}
			}
		}
		if x, ok := a.(int); ok {
			if y, ok := b.(int); ok {
				switch op {
				case "<":
					return x < y, nil
				case "<=":
					return x <= y, nil
				case ">":
					return x > y, nil
				default:
					return x >= y, nil
				}
			}
		}
		if x, ok := a.(string); ok {
			if y, ok := b.(string); ok {
				switch op {
				case "<":
					return x < y, nil
				case "<=":
					return x <= y, nil
				case ">":
					return x > y, nil
				default:
					return x >= y, nil
				}
			}
		}
		return nil, r.fail(n, "invalid operands %T %s %T", a, op, b)
	case "==", "!=":
		eq, ok := scalarEqual(a, b)
		if !ok {
			return nil, r.outside(n, "equality outside the fragment: %T %T", a, b)
		}
		if op == "!=" {
			return !eq, nil
		}
		return eq, nil
	case "in", "not in":
		res, err := r.in(n, a, b)
		if err != nil {
			return nil, err
		}
		if op == "not in" {
			return !res, nil
		}
		return res, nil
	case "..":
		x, ok1 := refInt(a)
		y, ok2 := refInt(b)
		if !ok1 || !ok2 {
			return nil, r.fail(n, "range of %T..%T", a, b)
		}
		size := 0
		if y >= x {
			// number of elements, computed without overflow (y-x+1 can exceed the int range)
			span := uint64(y) - uint64(x)
			if span >= 1<<21 {
				// Does not fit any budget the simulator uses (<= 10^6): by the definition
				// such a run fails for budget reasons. Do not build it.
				r.Allocs = append(r.Allocs, 1<<40)
				r.TooBig = true
				r.Huge = true
				return nil, r.fail(n, "range too large for any budget")
			}
			size = int(span) + 1
		}
		if e := r.alloc(n, size); e != nil {
			return nil, e
		}
		out := make([]int, size)
		for i := range out {
			out[i] = x + i
		}
		return out, nil
	case "contains", "startsWith", "endsWith":
		x, ok1 := a.(string)
		y, ok2 := b.(string)
		if !ok1 || !ok2 {
			return nil, r.fail(n, "string operator on %T, %T", a, b)
		}
		switch op {
		case "contains":
			return strings.Contains(x, y), nil
		case "startsWith":
			return strings.HasPrefix(x, y), nil
		default:
			return strings.HasSuffix(x, y), nil
		}
	case "matches":
		x, ok1 := a.(string)
		y, ok2 := b.(string)
		if !ok1 || !ok2 {
			return nil, r.fail(n, "matches on %T, %T", a, b)
		}
		re, cerr := regexp.Compile(y)
		if cerr != nil {
			return nil, r.fail(n, "bad pattern")
		}
		return re.MatchString(x), nil
	}
	return nil, r.outside(n, "unknown operator %s", op)
}

// scalarEqual defines equality on the fragment's scalar values (int, bool,
// string, nil). ok=false means the comparison is outside the fragment.
func scalarEqual(a, b interface{}) (eq bool, ok bool) {
	isScalar := func(v interface{}) bool {
		switch x := v.(type) {
		case nil, int, bool, string:
			return true
		case *Obj:
			return x == nil
		}
		return false
	}
	if !isScalar(a) || !isScalar(b) {
		return false, false
	}
	an := a == nil
	if o, isObj := a.(*Obj); isObj && o == nil {
		an = true
	}
	bn := b == nil
	if o, isObj := b.(*Obj); isObj && o == nil {
		bn = true
	}
	if an || bn {
		return an && bn, true
	}
	switch x := a.(type) {
	case int:
		y, ok := b.(int)
		return ok && x == y, true
	case bool:
		y, ok := b.(bool)
		return ok && x == y, true
	case string:
		y, ok := b.(string)
		return ok && x == y, true
	}
	return false, false
}

func seqOf(v interface{}) ([]interface{}, bool) {
	switch x := v.(type) {
	case []interface{}:
		return x, true
	case []int:
		out := make([]interface{}, len(x))
		for i, e := range x {
			out[i] = e
		}
		return out, true
	case []string:
		out := make([]interface{}, len(x))
		for i, e := range x {
			out[i] = e
		}
		return out, true
	case []*Obj:
		out := make([]interface{}, len(x))
		for i, e := range x {
			out[i] = e
		}
		return out, true
	}
	return nil, false
}

func (r *Ref) in(n *N, needle, hay interface{}) (bool, *EvalError) {
	if hay == nil {
		return false, nil
	}
	if seq, ok := seqOf(hay); ok {
		for _, e := range seq {
			eq, ok := scalarEqual(needle, e)
			if !ok {
				return false, r.outside(n, "membership outside the fragment")
			}
			if eq {
				return true, nil
			}
		}
		return false, nil
	}
	switch m := hay.(type) {
	case map[string]int:
		k, ok := needle.(string)
		if !ok {
			return false, r.fail(n, "key type %T", needle)
		}
		_, found := m[k]
		return found, nil
	case map[string]interface{}:
		k, ok := needle.(string)
		if !ok {
			return false, r.fail(n, "key type %T", needle)
		}
		_, found := m[k]
		return found, nil
	}
	return false, r.fail(n, "in on %T", hay)
}

func (r *Ref) index(n *N, a, i interface{}) (interface{}, *EvalError) {
	if seq, ok := seqOf(a); ok {
		k, ok := i.(int)
		if !ok {
			return nil, r.fail(n, "index type %T", i)
		}
		if k < 0 || k >= len(seq) {
			return nil, r.fail(n, "index out of range")
		}
		return seq[k], nil
	}
	switch m := a.(type) {
	case map[string]int:
		k, ok := i.(string)
		if !ok {
			return nil, r.fail(n, "key type %T", i)
		}
		return m[k], nil // absent key: zero value of the element type
	case map[string]interface{}:
		k, ok := i.(string)
		if !ok {
			return nil, r.fail(n, "key type %T", i)
		}
		return m[k], nil
	}
	return nil, r.fail(n, "cannot index %T", a)
}

func (r *Ref) slice(n *N) (interface{}, *EvalError) {
	a, err := r.Eval(n.C[0])
	if err != nil {
		return nil, err
	}
	// Bounds are evaluated left to right: from, then to.
	var from, to interface{}
	if n.C[1].K != "none" {
		from, err = r.Eval(n.C[1])
		if err != nil {
			return nil, err
		}
	}
	if n.C[2].K != "none" {
		to, err = r.Eval(n.C[2])
		if err != nil {
			return nil, err
		}
	}
	var length int
	seq, isSeq := seqOf(a)
	str, isStr := a.(string)
	switch {
	case isSeq:
		length = len(seq)
	case isStr:
		length = len(str)
	default:
		return nil, r.fail(n, "cannot slice %T", a)
	}
	lo, hi := 0, length
	if n.C[1].K != "none" {
		v, ok := from.(int)
		if !ok {
			return nil, r.fail(n, "slice bound %T", from)
		}
		lo = v
	}
	if n.C[2].K != "none" {
		v, ok := to.(int)
		if !ok {
			return nil, r.fail(n, "slice bound %T", to)
		}
		hi = v
	}
	if hi > length {
		hi = length
	}
	if lo > hi {
		lo = hi
	}
	if lo < 0 || hi < 0 {
		return nil, r.fail(n, "negative slice bound")
	}
	if isStr {
		return str[lo:hi], nil
	}
	return seq[lo:hi], nil
}

func (r *Ref) builtin(n *N) (interface{}, *EvalError) {
	coll, err := r.Eval(n.C[0])
	if err != nil {
		return nil, err
	}
	if n.S == "len" {
		if seq, ok := seqOf(coll); ok {
			return len(seq), nil
		}
		switch x := coll.(type) {
		case string:
			return len(x), nil
		case map[string]int:
			return len(x), nil
		case map[string]interface{}:
			return len(x), nil
		}
		return nil, r.fail(n, "len of %T", coll)
	}
	seq, ok := seqOf(coll)
	if !ok {
		return nil, r.fail(n, "%s over %T", n.S, coll)
	}
	body := n.C[1]
	pred := func(el interface{}) (bool, *EvalError) {
		r.stack = append(r.stack, el)
		v, err := r.Eval(body)
		r.stack = r.stack[:len(r.stack)-1]
		if err != nil {
			return false, err
		}
		b, ok := v.(bool)
		if !ok {
			return false, r.fail(n, "predicate returned %T", v)
		}
		return b, nil
	}
	switch n.S {
	case "all":
		for _, el := range seq {
			b, err := pred(el)
			if err != nil {
				return nil, err
			}
			if !b {
				return false, nil
			}
		}
		return true, nil
	case "none":
		for _, el := range seq {
			b, err := pred(el)
			if err != nil {
				return nil, err
			}
			if b {
				return false, nil
			}
		}
		return true, nil
	case "any":
		for _, el := range seq {
			b, err := pred(el)
			if err != nil {
				return nil, err
			}
			if b {
				return true, nil
			}
		}
		return false, nil
	case "one", "count":
		c := 0
		for _, el := range seq {
			b, err := pred(el)
			if err != nil {
				return nil, err
			}
			if b {
				c++
			}
		}
		if n.S == "one" {
			return c == 1, nil
		}
		return c, nil
	case "filter":
		out := []interface{}{}
		for _, el := range seq {
			b, err := pred(el)
			if err != nil {
				return nil, err
			}
			if b {
				out = append(out, el)
			}
		}
		if e := r.alloc(n, len(out)); e != nil {
			return nil, e
		}
		return out, nil
	case "map":
		out := make([]interface{}, 0, len(seq))
		for _, el := range seq {
			r.stack = append(r.stack, el)
			v, err := r.Eval(body)
			r.stack = r.stack[:len(r.stack)-1]
			if err != nil {
				return nil, err
			}
			out = append(out, v)
		}
		if e := r.alloc(n, len(out)); e != nil {
			return nil, e
		}
		return out, nil
	}
	return nil, r.outside(n, "unknown builtin %s", n.S)
}
