package main

import (
	"fmt"
	"os"
	"strconv"
	"time"
)

// oneMain is a development aid: generate scenario idx of a property, print it,
// run it once and print the finding.  verifsim one <prop> <tier> <seed> <idx> [norun]
func oneMain(args []string) int {
	if len(args) < 4 {
		usage()
	}
	e, ok := engines[args[0]]
	if !ok {
		fmt.Fprintln(os.Stderr, "unknown property")
		return 2
	}
	seed, _ := strconv.ParseUint(args[2], 10, 64)
	idx, _ := strconv.Atoi(args[3])
	sc := e.Gen(DeriveSeed(seed, args[0], idx), idx, args[1])
	fmt.Println(string(mustJSON(sc)))
	if len(args) > 4 {
		return 0
	}
	ctx := NewRunCtx()
	t0 := time.Now()
	f, im := runGuarded(e, sc, ctx)
	for _, l := range ctx.Log {
		fmt.Println("  |", l)
	}
	fmt.Printf("wall=%.2fs evals=%d infra=%q\n", time.Since(t0).Seconds(), ctx.Evals, im)
	if f != nil {
		fmt.Printf("FINDING class=%s\n%s\n", f.Class, f.Detail)
		return 1
	}
	return 0
}
