package main

import (
	"encoding/json"
	"errors"
	"fmt"
	"strings"

	"github.com/antonmedv/expr"
	"github.com/antonmedv/expr/file"
	"github.com/antonmedv/expr/vm"
)

// ---------------------------------------------------------------------------
// C13 (scoped to failures of a party the simulator plays): a program with many
// guarded operations runs against a healthy environment; exactly one fault is
// planted - each site in turn: a failing environment call (call index k), a
// bad environment datum (zero divisor, index out of range, nil link, invalid
// pattern, wrongly typed dynamic value), or a poisoned ConstExpr call at
// compile time. The reference evaluator tells which operation fails; the
// *file.Error the library returns must point into that operation's printed
// span and outside the span of every other operation nested in it, lie inside
// the source, and carry the named source line as its snippet.
// ---------------------------------------------------------------------------

type C13Site struct {
	Budget  int    `json:"budget,omitempty"`   // kind=budget: vm.MemoryBudget for the run
	Kind    string `json:"kind"`               // call | data | constexpr | budget
	CallIdx int    `json:"call_index"`         // kind=call
	Fault   string `json:"fault_kind"`         // kind=call / constexpr
	Variant string `json:"variant,omitempty"`  // kind=data: zero-divisor | index-range | nil-link | bad-pattern | dyn-string
	Poison  string `json:"poisoned,omitempty"` // kind=constexpr: "<name>(<args>)"
}

type C13Scenario struct {
	Seed     uint64    `json:"seed"`
	Index    int       `json:"index"`
	Rep      string    `json:"env_representation"`
	Optimize bool      `json:"optimize"`
	API      string    `json:"api"`
	Reuse    bool      `json:"reused_vm"`
	Layout   Layout    `json:"layout"`
	Tree     *N        `json:"tree"`
	Env      *EnvData  `json:"env"`
	Sites    []C13Site `json:"sites"`
	// Overload: the ** operator is overloaded (OpA, OpB); 'O ** O' is a call of OpA.
	Overload bool   `json:"operator_overload,omitempty"`
	Source   string `json:"source_text,omitempty"`
}

func (sc *C13Scenario) clone() *C13Scenario {
	b, _ := json.Marshal(sc)
	var c C13Scenario
	json.Unmarshal(b, &c)
	return &c
}

type c13Engine struct{}

func init() { register(c13Engine{}) }

func (c13Engine) Property() string { return "C13" }
func (c13Engine) Name() string     { return "envsim/planted-fault-location" }
func (c13Engine) Level() string    { return "fault_enumeration" }
func (c13Engine) Count(tier string) int {
	if tier == "thorough" {
		return 1200000
	}
	return 60000
}
func (c13Engine) Rule() string {
	return "Scenario i from H(VERIF_SEED,'C13',i): a typed random program of the mini-expr fragment with several guarded operations (external calls, division/modulo, indexing, member access, run-time patterns, dynamic operands, also inside closures), printed over several lines with multi-byte string literals, run against a HEALTHY environment (fault-free run succeeds). One fault is planted per evaluation, every site in turn (thorough: every call index and every data variant; quick: up to 4 call indices + all data variants): call k fails (seeded fault kind), or one datum is bad (zero divisor / index out of range / nil link / invalid pattern / string in a dynamic int), or a ConstExpr call is poisoned at compile time. The reference evaluator names the failing node; oracle on the returned *file.Error: non-empty location inside the source; location inside the failing node's printed span and outside every nested non-leaf operation's span; snippet line equals source line Line. Non-trivial = the program has at least 3 candidate operations and the fault fired; distinct = distinct (source, layout, env, site) signatures."
}
func (c13Engine) Assumptions() []string {
	return []string{
		"scoped to run-time failures (and poisoned ConstExpr calls at compile time): compile-time positions of unknown names, type mismatches and syntax errors are functions of the source text alone and are not decided here",
		"the oracle is tolerant about WHICH character of the failing operation is named and strict about WHICH operation; caret rendering is not decided",
		"the reference evaluator and printer spans (harness code) are trusted; with a bad datum the first operation that fails in left-to-right order is the planted site",
	}
}
func (c13Engine) Required(tier string) []string {
	return []string{"hook_calls", "site/call", "site/data/zero-divisor", "site/data/index-range", "site/data/nil-link", "site/data/bad-pattern", "site/data/dyn-string", "site/constexpr", "site/budget", "multi_line_sources", "site_after_multibyte", "site_in_closure", "locations_checked"}
}
func (c13Engine) Decode(raw []byte) (interface{}, error) {
	var sc C13Scenario
	err := json.Unmarshal(raw, &sc)
	return &sc, err
}

var c13Variants = []string{"zero-divisor", "index-range", "nil-link", "bad-pattern", "dyn-string"}

// applyVariant returns a copy of the environment with one bad datum.
func applyVariant(d *EnvData, v string) *EnvData {
	b, _ := json.Marshal(d)
	var c EnvData
	json.Unmarshal(b, &c)
	switch v {
	case "zero-divisor":
		c.Z = 0
	case "index-range":
		c.K = 11
	case "nil-link":
		if c.O != nil {
			c.O.Next = nil
		}
	case "bad-pattern":
		c.Re = "(["
	case "dyn-string":
		c.Any = &AnyData{Kind: "str", S: "dyn"}
	}
	return &c
}

func healthyEnv(r *RNG) *EnvData {
	d := GenEnvData(r)
	if d.Z == 0 {
		d.Z = 1 + r.Intn(3)
	}
	for len(d.Xs) < 3 {
		d.Xs = append(d.Xs, r.Range(-5, 9))
	}
	for len(d.Ss) < 3 {
		d.Ss = append(d.Ss, r.Pick(strPool))
	}
	d.K = r.Intn(3)
	d.Re = r.Pick(rePool)
	d.O.Next = &ObjData{V: r.Range(-3, 6), Name: "next"}
	d.Any = &AnyData{Kind: "int", I: r.Range(-3, 9)}
	return d
}

func (c13Engine) Gen(seed uint64, idx int, tier string) interface{} {
	r := NewRNG(seed)
	sc := &C13Scenario{Seed: seed, Index: idx}
	sc.Rep = []string{RepStruct, RepPtr, RepMap}[r.Intn(3)]
	sc.Optimize = !r.Chance(1, 4)
	sc.API = "run"
	if r.Chance(1, 10) {
		sc.API = "eval"
	}
	sc.Reuse = r.Chance(1, 5)
	if r.Chance(1, 3) {
		sc.Overload = true
		sc.API = "run" // Eval takes no options
	}
	sc.Layout = Layout{Mode: 1 + r.Intn(2), Salt: r.Next()}
	if r.Chance(1, 6) {
		sc.Layout.Mode = 0
	}
	if r.Chance(1, 3) {
		sc.Layout.Lead = r.Pick([]string{" ", "\n", "\n\n  ", "\t", "  \n "})
		sc.Layout.Trail = r.Pick([]string{"", " ", "\n", " \n\n"})
	}
	if r.Chance(1, 40) {
		// a fault far from the origin: beyond line or column 65536 (far columns
		// rarely: the library draws the caret line in quadratic time, a second per error)
		if r.Chance(1, 75) {
			sc.Layout.Pad = [2]int{0, 65530 + r.Intn(5000)}
		} else {
			sc.Layout.Pad = [2]int{65530 + r.Intn(5000), r.Intn(3)}
		}
	}
	for attempt := 0; ; attempt++ {
		sc.Env = healthyEnv(r)
		cfg := GenCfg{Budget: r.Range(8, 44), Calls: true, Dyn: true, Failing: true, Strings: true, Closures: r.Chance(3, 4), Maps: r.Chance(1, 2),
			Objects: true, ShortPred: r.Chance(1, 2), NilSafe: r.Chance(1, 3), SliceCall: true, ConstFns: r.Chance(1, 3), AnyUsable: true}
		cfg.MapRep = sc.Rep == RepMap
		cfg.Overload = sc.Overload
		g := NewGen(r.Fork(), cfg)
		sc.Tree = genRoot(g, r)
		if r.Chance(1, 2) {
			// multi-byte text before every site: columns count runes, not bytes
			sc.Tree = nArr(nStr(r.Pick([]string{"日本語", "é", "ключ", "😀 x"})), sc.Tree)
		}
		w := NewWorld(false, nil, nil)
		ref := NewRef(BuildEnv(w, sc.Env))
		_, err := ref.Eval(sc.Tree)
		if err == nil && len(w.Journal) >= 1 || attempt > 30 {
			if err != nil {
				sc.Tree = nBin("+", nCall("F1", nBin("/", nID("A"), nID("Z"))), nIdx(nID("Xs"), nID("K")))
			}
			break
		}
	}
	sc.Source = Print(sc.Tree, sc.Layout).Src
	// sites
	w := NewWorld(false, nil, nil)
	ref := NewRef(BuildEnv(w, sc.Env))
	ref.Eval(sc.Tree)
	n := len(w.Journal)
	fr := r.Fork()
	if tier == "thorough" {
		for k := 0; k < n && k < 40; k++ {
			sc.Sites = append(sc.Sites, C13Site{Kind: "call", CallIdx: k, Fault: allFaultKinds[fr.Intn(len(allFaultKinds))]})
		}
	} else {
		for j := 0; j < 4 && j < n; j++ {
			sc.Sites = append(sc.Sites, C13Site{Kind: "call", CallIdx: fr.Intn(n), Fault: allFaultKinds[fr.Intn(len(allFaultKinds))]})
		}
	}
	for _, v := range c13Variants {
		sc.Sites = append(sc.Sites, C13Site{Kind: "data", Variant: v})
	}
	// budget exhaustion: the allocation at which the cumulative count reaches the budget fails
	if len(ref.Allocs) > 0 {
		sum := 0
		for j, a := range ref.Allocs {
			sum += a
			if a > 0 && (tier == "thorough" || j == fr.Intn(len(ref.Allocs)) || j == 0) && len(sc.Sites) < 60 {
				sc.Sites = append(sc.Sites, C13Site{Kind: "budget", Budget: sum})
			}
		}
	}
	// poisoned ConstExpr calls: every distinct CI/CS/CB call of the fault-free journal
	seen := map[string]bool{}
	for _, c := range w.Journal {
		if c.Name == "CI" || c.Name == "CS" || c.Name == "CB" {
			key := c.Name + "(" + c.Args + ")"
			if !seen[key] {
				seen[key] = true
				sc.Sites = append(sc.Sites, C13Site{Kind: "constexpr", Poison: key, Fault: panicFaultKinds[fr.Intn(len(panicFaultKinds))]})
			}
		}
	}
	return sc
}

// opSpanOK applies the span oracle: loc must be inside node n and outside
// every nested non-leaf operation.
func opSpanOK(pr *Printed, n *N, line, col int) (bool, string) {
	off, ok := pr.OffsetOf(line, col)
	if !ok {
		return false, "the location lies outside the source"
	}
	if off < n.start || off >= n.end {
		return false, fmt.Sprintf("the location (rune offset %d) lies outside the failing operation's span [%d,%d)", off, n.start, n.end)
	}
	var bad *N
	var rec func(c *N)
	rec = func(c *N) {
		for _, k := range c.C {
			switch k.K {
			case "int", "bool", "str", "nil", "id", "ptr", "none":
				continue
			case "pair":
				rec(k)
				continue
			}
			if off >= k.start && off < k.end {
				if bad == nil {
					bad = k
				}
			}
		}
	}
	rec(n)
	if bad != nil {
		return false, fmt.Sprintf("the location (rune offset %d) lies inside a nested operation %q, not the failing one", off, string([]rune(pr.Src)[bad.start:bad.end]))
	}
	// Positions are token positions (the first character of a token): the
	// location must be the start of one of the failing operation's own tokens,
	// or of one of its leaf operands.
	ok = false
	for _, t := range n.toks {
		if t == off {
			ok = true
		}
	}
	for _, k := range n.C {
		switch k.K {
		case "int", "bool", "str", "nil", "id", "ptr":
			for _, t := range k.toks {
				if t == off {
					ok = true
				}
			}
		}
	}
	if !ok {
		return false, fmt.Sprintf("the location (rune offset %d) is inside the failing operation but is not the first character of any of its tokens (%v)", off, n.toks)
	}
	return true, ""
}

func runeSlice(s string, a, b int) string {
	r := []rune(s)
	if a < 0 {
		a = 0
	}
	if b > len(r) {
		b = len(r)
	}
	if a > b {
		a = b
	}
	return string(r[a:b])
}

func (c13Engine) Run(sci interface{}, ctx *RunCtx) *Finding {
	sc := sci.(*C13Scenario)
	pr := Print(sc.Tree, sc.Layout)
	ctx.Logf("source %q rep=%s optimize=%v api=%s reuse=%v", pr.Src, sc.Rep, sc.Optimize, sc.API, sc.Reuse)
	if len(pr.Lines) > 1 {
		ctx.Count("multi_line_sources", 1)
	}
	ops := 0
	sc.Tree.Walk(func(n *N) {
		switch n.K {
		case "call", "meth", "idx", "prop", "bin", "slice":
			ops++
		}
	})

	compile := func(constExpr bool, poison []PoisonFault) (*vm.Program, Outcome, *World) {
		w0 := NewWorld(false, nil, poison)
		w0.Phase = "compile"
		sample := BuildEnv(w0, sc.Env).AsRep(sc.Rep)
		opts := []expr.Option{expr.Env(sample)}
		if !sc.Optimize {
			opts = append(opts, expr.Optimize(false))
		}
		if constExpr {
			opts = append(opts, expr.ConstExpr("CI"), expr.ConstExpr("CS"), expr.ConstExpr("CB"))
		}
		if sc.Overload {
			opts = append(opts, expr.Operator("**", "OpA", "OpB"))
		}
		p, co := sutCompile(pr.Src, opts...)
		// another, unrelated compilation right afterwards: the program just compiled
		// (its bytecode-offset -> location table included) must not be affected by it
		sutCompile("[1, \"é\"][0] + len(\"abc\")", opts...)
		return p, co, w0
	}

	var prog *vm.Program
	if sc.API != "eval" {
		var co Outcome
		prog, co, _ = compile(false, nil)
		if co.Failed() {
			return &Finding{Class: "C13/compile-rejected", Detail: "Compile rejected a well-typed program of the fragment: " + co.ErrText() + "\nsource: " + pr.Src}
		}
	}
	var machine *vm.VM
	if sc.Reuse && sc.API != "eval" {
		machine = &vm.VM{}
		beginRun(-1, 0)
		sutRun(machine, prog, BuildEnv(NewWorld(false, nil, nil), sc.Env).AsRep(sc.Rep))
	}

	checkErr := func(label string, err error, node *N, site C13Site) *Finding {
		feature := site.Kind
		if site.Kind == "data" {
			feature += "/" + site.Variant
		}
		var fe *file.Error
		if !errors.As(err, &fe) {
			return &Finding{Class: "C13/unlocated-error/" + feature, Detail: fmt.Sprintf("%s: the failure is not reported as a located error (*file.Error): %T %v\nsource: %s", label, err, err, pr.Src)}
		}
		ctx.Count("locations_checked", 1)
		ctx.Logf("%s: reported %d:%d %q | failing operation %q span [%d,%d) anchor %d:%d", label, fe.Line, fe.Column, firstLine(fe.Message), runeSlice(pr.Src, node.start, node.end), node.start, node.end, node.line, node.col)
		if fe.Location.Empty() {
			return &Finding{Class: "C13/empty-location/" + feature, Detail: fmt.Sprintf("%s: the error carries no location: %v\nfailing operation: %s\nsource: %s", label, fe.Message, runeSlice(pr.Src, node.start, node.end), pr.Src)}
		}
		if ok, why := opSpanOK(pr, node, fe.Line, fe.Column); !ok {
			kind := "wrong-operation"
			if _, in := pr.OffsetOf(fe.Line, fe.Column); !in {
				kind = "location-outside-source"
			}
			return &Finding{Class: "C13/" + kind + "/" + feature + "/" + node.K, Detail: fmt.Sprintf("%s: reported location %d:%d (line:0-based column) - %s\nfailing operation (by the definition): %q at %d:%d\nmessage: %s\nsource:\n%s", label, fe.Line, fe.Column, why, runeSlice(pr.Src, node.start, node.end), node.line, node.col, firstLine(fe.Message), pr.Src)}
		}
		if fe.Line == node.line && fe.Column == node.col {
			ctx.Count("exact_anchor_matches", 1)
		}
		// snippet: "\n | <source line>" [+ "\n | ....^"]
		want := strings.Replace(pr.Lines[fe.Line-1], "\t", " ", -1)
		parts := strings.Split(fe.Snippet, "\n")
		if len(parts) < 2 || parts[1] != " | "+want {
			return &Finding{Class: "C13/snippet-not-the-named-line/" + feature, Detail: fmt.Sprintf("%s: snippet %q is not source line %d (%q)\nsource:\n%s", label, fe.Snippet, fe.Line, want, pr.Src)}
		}
		// reach
		if node.start > 0 && len(runeSlice(pr.Src, 0, node.start)) != node.start {
			ctx.Count("site_after_multibyte", 1)
		}
		return nil
	}

	for _, site := range sc.Sites {
		label := fmt.Sprintf("site %+v", site)
		switch site.Kind {
		case "call", "data":
			env := sc.Env
			var faults []CallFault
			if site.Kind == "call" {
				faults = []CallFault{{Idx: site.CallIdx, Kind: site.Fault}}
			} else if site.Variant == "dyn-string" && sc.Rep == RepMap {
				// For a map environment the sample value's dynamic type IS the declared
				// type of the member; a differently typed value at run time is not an
				// environment value of the declared type.
				continue
			} else {
				env = applyVariant(sc.Env, site.Variant)
			}
			w2 := NewWorld(false, faults, nil)
			ref := NewRef(BuildEnv(w2, env))
			_, refErr := ref.Eval(sc.Tree)
			if refErr == nil || ref.TooBig {
				continue // the planted fault is not reached by this program (or was absorbed: ret-nil/ret-str used harmlessly)
			}
			w1 := NewWorld(false, faults, nil)
			envv := BuildEnv(w1, env).AsRep(sc.Rep)
			beginRun(-1, 0)
			var out Outcome
			if sc.API == "eval" {
				out = sutEval(pr.Src, envv)
			} else {
				out = sutRun(machine, prog, envv)
			}
			ctx.Eval()
			if site.Kind == "call" {
				ctx.Count("site/call", 1)
			} else {
				ctx.Count("site/data/"+site.Variant, 1)
			}
			if refErr.inClosure != "" {
				ctx.Count("site_in_closure", 1)
			}
			if ops >= 3 {
				ctx.Nontrivial(fmt.Sprintf("%s|%v|%s|%s|%+v", pr.Src, sc.Layout, sc.Env, sc.Rep, site))
			}
			if out.Panicked {
				return &Finding{Class: "C13/panic-escaped", Detail: label + ": a panic escaped: " + out.PanicVal + "\nsource: " + pr.Src}
			}
			if out.Err == nil {
				return &Finding{Class: "C13/no-error-reported/" + site.Kind, Detail: fmt.Sprintf("%s: the run succeeded (%s) although the definition says it fails at %q (%s)\nsource: %s", label, Canon(out.Out), runeSlice(pr.Src, refErr.Node.start, refErr.Node.end), refErr.Msg, pr.Src)}
			}
			if f := checkErr(label, out.Err, refErr.Node, site); f != nil {
				return f
			}
		case "budget":
			// the run is given a budget that the j-th allocation exhausts; that allocation fails
			w2 := NewWorld(false, nil, nil)
			ref := NewRef(BuildEnv(w2, sc.Env))
			if _, e := ref.Eval(sc.Tree); e != nil || ref.TooBig {
				continue
			}
			var node *N
			sum := 0
			for j, a := range ref.Allocs {
				sum += a
				if sum >= site.Budget {
					node = ref.AllocNodes[j]
					break
				}
			}
			if node == nil {
				continue
			}
			if sc.Optimize && mayPrebuild(sc.Tree) {
				continue // a collection the optimiser may build at compile time: the trace is not the run's
			}
			w1 := NewWorld(false, nil, nil)
			envv := BuildEnv(w1, sc.Env).AsRep(sc.Rep)
			saved := vm.MemoryBudget
			vm.MemoryBudget = site.Budget
			beginRun(-1, 0)
			var out Outcome
			if sc.API == "eval" {
				out = sutEval(pr.Src, envv)
			} else {
				out = sutRun(machine, prog, envv)
			}
			vm.MemoryBudget = saved
			ctx.Eval()
			ctx.Count("site/budget", 1)
			if ops >= 3 {
				ctx.Nontrivial(fmt.Sprintf("%s|%v|%s|%s|%+v", pr.Src, sc.Layout, sc.Env, sc.Rep, site))
			}
			if out.Panicked {
				return &Finding{Class: "C13/panic-escaped", Detail: label + ": a panic escaped: " + out.PanicVal + "\nsource: " + pr.Src}
			}
			if out.Err == nil {
				continue // whether the budget is enforced is C06's business
			}
			if f := checkErr(label, out.Err, node, site); f != nil {
				return f
			}
		case "constexpr":
			if sc.API == "eval" {
				continue
			}
			i := strings.IndexByte(site.Poison, '(')
			poison := []PoisonFault{{Name: site.Poison[:i], Args: strings.TrimSuffix(site.Poison[i+1:], ")"), Kind: site.Fault}}
			// Which call node is it? The reference, with the same poison, fails there
			// provided the call has constant arguments (otherwise it is not a
			// compile-time call and the site does not apply).
			_, co, w0 := compile(true, poison)
			ctx.Eval()
			if !co.Failed() {
				continue // the poisoned call was not evaluated at compile time
			}
			if co.Panicked {
				return &Finding{Class: "C13/panic-escaped", Detail: label + ": Compile panicked: " + co.PanicVal + "\nsource: " + pr.Src}
			}
			if len(w0.Fired) == 0 {
				continue // rejected for another reason (not this property)
			}
			// the failing node: a call node with that name whose literal arguments render as poisoned
			var node *N
			matches := 0
			sc.Tree.Walk(func(n *N) {
				if n.K == "call" && n.S == poison[0].Name {
					wr := NewWorld(false, nil, nil)
					r := NewRef(BuildEnv(wr, sc.Env))
					args, err := r.evalArgs(n.C)
					if err == nil && renderArgs(args) == poison[0].Args {
						matches++
						if node == nil && constOnlyArgs(n) {
							node = n
						}
					}
				}
			})
			if node == nil {
				continue
			}
			if matches > 1 {
				// the poisoned call occurs at several sites: not a single fault
				ctx.Count("skipped_multi_site_poison", 1)
				continue
			}
			ctx.Count("site/constexpr", 1)
			if f := checkErr(label+" (compile time)", co.Err, node, site); f != nil {
				return f
			}
		}
	}
	ctx.Sample(map[string]interface{}{"source": pr.Src, "sites": sc.Sites, "env_representation": sc.Rep})
	return nil
}

func constOnlyArgs(n *N) bool {
	for _, c := range n.C {
		if !constOnly(c) {
			return false
		}
	}
	return true
}

func (c13Engine) Shrinks(sci interface{}) []interface{} {
	sc := sci.(*C13Scenario)
	var out []interface{}
	add := func(f func(c *C13Scenario)) {
		c := sc.clone()
		f(c)
		if mustJSONString(c) != mustJSONString(sc) {
			out = append(out, c)
		}
	}
	if len(sc.Sites) > 1 {
		for i := range sc.Sites {
			i := i
			add(func(c *C13Scenario) { c.Sites = []C13Site{sc.Sites[i]} })
		}
	}
	for _, t := range treeShrinks(sc.Tree) {
		t := t
		add(func(c *C13Scenario) { c.Tree = t; c.Source = Print(t, c.Layout).Src })
	}
	for i, s := range sc.Sites {
		if s.Kind == "call" && s.CallIdx > 0 {
			i := i
			add(func(c *C13Scenario) { c.Sites[i].CallIdx = sc.Sites[i].CallIdx - 1 })
			add(func(c *C13Scenario) { c.Sites[i].CallIdx = 0 })
		}
		if s.Kind == "call" && s.Fault != FPanicString {
			i := i
			add(func(c *C13Scenario) { c.Sites[i].Fault = FPanicString })
		}
	}
	add(func(c *C13Scenario) { c.Reuse = false })
	add(func(c *C13Scenario) { c.Layout = Layout{}; c.Source = Print(c.Tree, c.Layout).Src })
	add(func(c *C13Scenario) { c.Layout.Mode = 1; c.Source = Print(c.Tree, c.Layout).Src })
	add(func(c *C13Scenario) { c.Rep = RepStruct })
	add(func(c *C13Scenario) { c.API = "run" })
	add(func(c *C13Scenario) { c.Overload = false })
	add(func(c *C13Scenario) { c.Optimize = true })
	for _, e := range envShrinks(sc.Env) {
		e := e
		add(func(c *C13Scenario) { c.Env = e })
	}
	return out
}
