package main

import (
	"errors"

	"fmt"
	"github.com/antonmedv/expr"
	"github.com/antonmedv/expr/file"
	"strconv"
	"strings"
)

// ---------------------------------------------------------------------------
// The simulated environment ("world"): every function and method the library
// can call into is played by the simulator. Each entry is journalled, may be
// failed by the fault plan, and otherwise answers deterministically.
// ---------------------------------------------------------------------------

// CallRec is one journal entry.
type CallRec struct {
	Phase string `json:"phase"` // "compile" or "run"
	Name  string `json:"name"`
	Args  string `json:"args"` // canonical rendering of the arguments
}

func (c CallRec) String() string { return c.Phase + ":" + c.Name + "(" + c.Args + ")" }

// Call-fault kinds (DESIGN §2.2).
const (
	FPanicString = "panic-string"
	FPanicError  = "panic-error"
	FPanicStruct = "panic-struct"
	FRuntimeNil  = "runtime-nil"
	FRuntimeIdx  = "runtime-index"
	FPanicNil    = "panic-nil"
	// FPanicFileErr: the callee panics with a *file.Error of its own (as a function
	// that evaluates an inner expression and re-panics with its error would).
	FPanicFileErr = "panic-file-error"
	// FPanicBadErr: the callee panics with an error value whose Error method
	// itself panics (a typed-nil pointer in an error interface).
	FPanicBadErr = "panic-bad-error"
	FRetNil      = "ret-nil" // only meaningful for interface{}-returning shapes; elsewhere behaves as panic-string
	FRetStr      = "ret-str"
)

var panicFaultKinds = []string{FPanicString, FPanicError, FPanicStruct, FRuntimeNil, FRuntimeIdx, FPanicNil, FPanicFileErr, FPanicBadErr}
var allFaultKinds = []string{FPanicString, FPanicError, FPanicStruct, FRuntimeNil, FRuntimeIdx, FPanicNil, FPanicFileErr, FPanicBadErr, FRetNil, FRetStr}

type badErr struct{ msg string }

func (b *badErr) Error() string { return b.msg } // panics for a nil *badErr

// CallFault fails the Idx-th call (0-based, counted over the whole life of one
// world instance, compile phase included).
type CallFault struct {
	Idx  int    `json:"idx"`
	Kind string `json:"kind"`
}

// PoisonFault fails every call of function Name whose canonical argument
// rendering equals Args (used for ConstExpr scenarios, where "the same call"
// must fail whenever it happens: at compile time or at run time).
type PoisonFault struct {
	Name string `json:"name"`
	Args string `json:"args"`
	Kind string `json:"kind"`
}

type injectedStruct struct {
	Code int
	Why  string
}

// World is one instance of the simulated environment's mutable state.
type World struct {
	Journal  []CallRec
	Stateful bool
	Phase    string
	faults   []CallFault
	poison   []PoisonFault
	Fired    []string // kinds of the faults that actually fired, in order
	// Yield, when set, is called on entry to and exit from every environment
	// function (schedsim).
	Yield func(where string)
	// Quiet disables journalling (used where the environment is shared
	// between tasks and must not carry harness state).
	Quiet bool
	// seq counts the calls of the stateful (non-pure) functions only: their
	// results depend on it, so moving calls of PURE functions to compile time
	// (ConstExpr) does not disturb them.
	seq int
	// kept: the argument slices Va received, retained as a callee may, with their
	// rendering at call time. A slice handed to a callee is the callee's: the
	// library must not write to it afterwards (say, by reusing it for the next call).
	kept       [][]interface{}
	keptRender []string
}

// checkKept journals a record when an argument slice retained from an earlier call
// no longer holds what it held then (the reference world never produces one).
func (w *World) checkKept() {
	for i, k := range w.kept {
		if k == nil {
			continue
		}
		if now := renderArgs(k); now != w.keptRender[i] {
			w.Journal = append(w.Journal, CallRec{Phase: w.Phase, Name: "!arguments-retained-by-an-earlier-Va-call-were-overwritten", Args: w.keptRender[i] + " -> " + now})
			w.kept[i] = nil
		}
	}
}

var pureFns = map[string]bool{"CP": true, "CN": true, "Nest": true, "CL": true, "Tup": true, "PtrM": true, "Ff": true, "CI": true, "CS": true, "CB": true, "C64": true, "OpA": true, "OpB": true}

func NewWorld(stateful bool, faults []CallFault, poison []PoisonFault) *World {
	return &World{Stateful: stateful, Phase: "run", faults: faults, poison: poison}
}

func renderArgs(args []interface{}) string {
	parts := make([]string, len(args))
	for i, a := range args {
		parts[i] = Canon(a)
	}
	return strings.Join(parts, ",")
}

// enter journals a call and fires a planned fault. It returns the call index
// and, for the "return a wrong value" kinds, the kind to apply.
func (w *World) enter(name string, args ...interface{}) (idx int, ret string) {
	if w == nil {
		return 0, ""
	}
	if w.Yield != nil {
		w.Yield("enter:" + name)
	}
	if w.Quiet {
		return 0, ""
	}
	w.checkKept()
	pos := len(w.Journal)
	idx = w.seq
	if !pureFns[name] {
		w.seq++
	}
	ra := renderArgs(args)
	if name == "Va" && len(args) > 0 && len(w.kept) < 32 {
		w.kept = append(w.kept, args)
		w.keptRender = append(w.keptRender, ra)
	}
	w.Journal = append(w.Journal, CallRec{Phase: w.Phase, Name: name, Args: ra})
	kind := ""
	for _, f := range w.faults {
		if f.Idx == pos {
			kind = f.Kind
		}
	}
	for _, p := range w.poison {
		if p.Name == name && p.Args == ra {
			kind = p.Kind
		}
	}
	if kind == "" {
		return idx, ""
	}
	w.Fired = append(w.Fired, kind)
	switch kind {
	case FRetNil, FRetStr:
		if name == "Va" || name == "AnyOf" {
			return idx, kind
		}
		panic("injected fault in " + name)
	case FPanicString:
		panic("injected fault in " + name)
	case FPanicError:
		panic(errors.New("injected error in " + name))
	case FPanicStruct:
		panic(injectedStruct{Code: 7, Why: name})
	case FRuntimeNil:
		var p *Obj
		_ = p.V // real nil-pointer dereference inside the callee
	case FRuntimeIdx:
		var xs []int
		_ = xs[pos+1] // real index-out-of-range inside the callee
	case FPanicNil:
		panic(nil)
	case FPanicFileErr:
		inner := &file.Error{Location: file.Location{Line: 1, Column: 3}, Message: "inner failure in " + name}
		panic(inner.Bind(file.NewSource("10 % (3 - 3)")))
	case FPanicBadErr:
		var b *badErr
		panic(error(b))
	default:
		panic("unknown fault kind " + kind)
	}
	return idx, ""
}

func (w *World) leave(name string) {
	if w != nil && w.Yield != nil {
		w.Yield("leave:" + name)
	}
}

// salt makes results depend on the call index when the world is stateful, so
// that a duplicated, dropped or reordered call changes later results.
func (w *World) salt(idx int) int {
	if w != nil && w.Stateful {
		// bounded, so that results fed back into ranges and loops cannot grow
		// without limit over a long run
		return (idx%7)*5 + 1
	}
	return 0
}

func small(x int) int { // keep values small, sign included
	m := x % 17
	return m - 8 + (0) // in [-24, 8]; fine
}

// ---------------------------------------------------------------------------
// Environment types. The member set is fixed (Go types are static); the
// generator picks among the members.
// ---------------------------------------------------------------------------

type Obj struct {
	w    *World
	V    int
	Name string
	Xs   []int
	Next *Obj
	L    int64   // derived from V
	F    float64 // derived from V
}

// Get has a pointer receiver, Twice a value receiver.
func (o *Obj) Get(i int) int {
	idx, _ := o.w.enter("Obj.Get", o.V, i)
	defer o.w.leave("Obj.Get")
	return small(o.V*3+i*7+1) + o.w.salt(idx)
}

// Sel takes interface{} parameters (nil is a legal argument).
func (o *Obj) Sel(a, b interface{}) int {
	idx, _ := o.w.enter("Obj.Sel", o.V, a, b)
	defer o.w.leave("Obj.Sel")
	r := o.V
	if a == nil {
		r += 1
	} else if i, ok := a.(int); ok {
		r += 2 * i
	}
	if b == nil {
		r += 4
	} else if i, ok := b.(int); ok {
		r += 3 * i
	}
	return small(r) + o.w.salt(idx)
}

func (o Obj) Twice(i int) int {
	idx, _ := o.w.enter("Obj.Twice", o.V, i)
	defer o.w.leave("Obj.Twice")
	return 2*i + o.V + o.w.salt(idx)
}

type Env struct {
	w *World

	A, B, C, D int
	Z          int // divisor
	N, M       int // range bounds
	K          int // index
	P, Q       bool
	S, T       string
	Re         string // regexp pattern
	Xs, Ys     []int
	Ss         []string
	Mp         map[string]int
	O          *Obj
	// O2 is deep-equal to O. Whether it is the SAME pointer as O or a distinct
	// equal object is not part of the environment's value (two deep-equal
	// environments may differ in that); see AliasO2.
	O2   *Obj
	On   *Obj // usually nil
	Any  interface{}
	Fn   func(int) int
	Objs []*Obj
	// Ob2 holds a value of ANOTHER struct type that also prints as "main.Obj"
	// (declared inside a function), with the same field names in another order.
	Ob2 interface{}
	// Pm: a pointer to a map.
	Pm *map[string]int
	Mi map[interface{}]int
	Av interface{}
	// MI, MS: members of NAMED types whose kinds are int and string.
	MI NamedInt
	MS NamedStr
	// EmbP is an embedded pointer that is nil: PromV is promoted from it.
	*EmbP
	// Lvl (float64) is declared BEFORE the embedded struct whose Lvl (int) it shadows.
	Lvl float64
	Emb
	// Info / Index: in the map representation these are ALSO present under the
	// lower-case keys "info" and "index" (identifiers that begin with "in").
	Info  bool
	Index int

	// Members of other numeric kinds (derived from the data above): operands of
	// every static type for the optimiser's rewrites (C02 typed-operand probes).
	U8  uint8
	U16 uint16
	I8  int8
	I64 int64
	F64 float64
	F32 float32
}

// Ff is a pure float function (integer literals in its argument are retyped).
func (e Env) Ff(x float64) float64 {
	_, _ = e.w.enter("Ff", x)
	defer e.w.leave("Ff")
	return x*2 + 0.25
}

func (e Env) F1(a int) int {
	idx, _ := e.w.enter("F1", a)
	defer e.w.leave("F1")
	return small(a*3+1) + e.w.salt(idx)
}

func (e Env) F2(a, b int) int {
	idx, _ := e.w.enter("F2", a, b)
	defer e.w.leave("F2")
	return small(a*5-b*3+2) + e.w.salt(idx)
}

func (e Env) G0() int {
	idx, _ := e.w.enter("G0")
	defer e.w.leave("G0")
	return 4 + e.w.salt(idx)
}

func (e Env) P1(a int) bool {
	idx, _ := e.w.enter("P1", a)
	defer e.w.leave("P1")
	return (a+e.w.salt(idx))%2 == 0
}

func (e Env) S1(s string) string {
	idx, _ := e.w.enter("S1", s)
	defer e.w.leave("S1")
	if e.w != nil && e.w.Stateful {
		return s + "#" + strconv.Itoa(idx)
	}
	return s + "!"
}

// Mk returns a fresh []int of length |n| mod 6.
func (e Env) Mk(n int) []int {
	idx, _ := e.w.enter("Mk", n)
	defer e.w.leave("Mk")
	if n < 0 {
		n = -n
	}
	out := make([]int, n%6)
	for i := range out {
		out[i] = i*2 + n + e.w.salt(idx)
	}
	return out
}

// Va has the shape the compiler turns into the fast-call instruction.
func (e Env) Va(xs ...interface{}) interface{} {
	idx, ret := e.w.enter("Va", xs...)
	defer e.w.leave("Va")
	switch ret {
	case FRetNil:
		return nil
	case FRetStr:
		return "str"
	}
	sum := len(xs)
	for _, x := range xs {
		if i, ok := x.(int); ok {
			sum += i
		}
	}
	return small(sum*3) + e.w.salt(idx)
}

// AliasO2 makes BuildEnv alias O2 to O instead of building an equal copy. It is
// flipped by vmsim around the re-run of an op: both environments are deep-equal.
var AliasO2 bool

// localObj returns a value of a function-local struct type named Obj: its type
// prints exactly like the package-level Obj, its fields come in another order.
func localObj(v int, name string) interface{} {
	type Obj struct {
		Name string
		Pad  int
		V    int
	}
	return Obj{Name: name, Pad: -1, V: v}
}

// EmbP is embedded in Env BY POINTER and left nil.
type EmbP struct {
	PromV int
}

// Emb is embedded in Env; its Lvl field is shadowed by Env.Lvl.
type Emb struct {
	Lvl  int
	EmbV int
}

// Level is a named integer type returned through interface{}.
type Level int

// CL is pure and returns a named integer type as interface{} (ConstExpr candidate).
func (e Env) CL(i int) interface{} {
	_, _ = e.w.enter("CL", i)
	defer e.w.leave("CL")
	return Level(i)
}

// Tup has the fast-call shape and KEEPS its variadic slice: it returns it.
func (e Env) Tup(xs ...interface{}) interface{} {
	_, _ = e.w.enter("Tup", xs...)
	defer e.w.leave("Tup")
	return xs
}

// Nest re-enters the library: it evaluates a small program on a fresh VM while
// the caller's run is in progress, and returns its result.
func (e Env) Nest(i int) int {
	_, _ = e.w.enter("Nest", i)
	defer e.w.leave("Nest")
	// (scalar work only: the nested run shares the process-wide memory budget and
	// must not be refused by a tiny one)
	out, err := expr.Eval("(a + b) * 2 - (a > b ? a * 3 : b - a) + (a == b ? 1 : 0)", map[string]interface{}{"a": i, "b": 1})
	if err != nil {
		panic(err)
	}
	return out.(int)
}

// CP is pure; its parameter is nilable but not an interface.
func (e Env) CP(p *Obj) bool {
	_, _ = e.w.enter("CP", p)
	defer e.w.leave("CP")
	return p == nil
}

// CN is pure and returns a nil interface.
func (e Env) CN(i int) interface{} {
	_, _ = e.w.enter("CN", i)
	defer e.w.leave("CN")
	return nil
}

// PtrM has a pointer receiver: it exists for *Env (and the map), not for Env.
func (e *Env) PtrM(a int) int {
	_, _ = e.w.enter("PtrM", a)
	defer e.w.leave("PtrM")
	return a + 1
}

// An takes two interface{} parameters (nil is a legal argument) and is called
// through the reflective path.
func (e Env) An(a, b interface{}) int {
	idx, _ := e.w.enter("An", a, b)
	defer e.w.leave("An")
	r := 0
	if a == nil {
		r += 1
	} else if i, ok := a.(int); ok {
		r += 3 * i
	}
	if b == nil {
		r += 2
	} else if i, ok := b.(int); ok {
		r += 5 * i
	}
	return small(r) + e.w.salt(idx)
}

// NamedInt and NamedStr are named types of kind int and string: rewrites that are
// sound for int and string operands are not sound for them.
type NamedInt int
type NamedStr string

// C8 takes an int8: integer literals (and arithmetic on them) in its argument
// position denote int8 values. Pure, not journalled.
func (e Env) C8(x int8) int8 { return x }

// OpS and OpI overload an arithmetic operator for two strings / two ints (C02
// probes with literal operands: the overload, not the built-in meaning, is what
// both the optimised and the unoptimised program must compute). Pure, not journalled.
func (e Env) OpS(a, b string) string { return a + "/" + b }
func (e Env) OpI(a, b int) int       { return a*100 + b }

// OpA and OpB are candidates for operator overloading: both accept two *Obj.
func (e Env) OpA(a, b *Obj) int {
	_, _ = e.w.enter("OpA", a, b)
	defer e.w.leave("OpA")
	r := 0
	if a != nil {
		r += a.V
	}
	if b != nil {
		r += 2 * b.V
	}
	return r
}

func (e Env) OpB(a, b interface{}) int {
	_, _ = e.w.enter("OpB", a, b)
	defer e.w.leave("OpB")
	return 1000
}

// C64 takes and returns int64 (integer literals in its argument are retyped).
func (e Env) C64(a int64) int64 {
	_, _ = e.w.enter("C64", a)
	defer e.w.leave("C64")
	return a*2 + 1
}

// CI is a pure int function meant to be marked ConstExpr.
func (e Env) CI(a int) int {
	_, _ = e.w.enter("CI", a)
	defer e.w.leave("CI")
	return small(a*7 + 3)
}

// CS is a pure string function meant to be marked ConstExpr.
func (e Env) CS(s string) string {
	_, _ = e.w.enter("CS", s)
	defer e.w.leave("CS")
	return strings.ToUpper(s) + "."
}

// CB is a pure (int,int)->bool function meant to be marked ConstExpr.
func (e Env) CB(a, b int) bool {
	_, _ = e.w.enter("CB", a, b)
	defer e.w.leave("CB")
	return a < b
}

// EnvData is the scenario's description of the environment value.
type EnvData struct {
	A, B, C, D int
	Z          int
	N, M       int
	K          int
	P, Q       bool
	S, T       string
	Re         string
	Xs, Ys     []int
	Ss         []string
	MpKeys     []string // map given as parallel slices to keep JSON and iteration ordered
	MpVals     []int
	O          *ObjData
	On         *ObjData
	Any        *AnyData
	Objs       []*ObjData
}

type ObjData struct {
	V    int
	Name string
	Xs   []int
	Next *ObjData
}

// AnyData is a tagged value for the interface{} member: Kind in nil|int|str|bool.
type AnyData struct {
	Kind string
	I    int
	S    string
	B    bool
}

func (a *AnyData) Value() interface{} {
	if a == nil {
		return nil
	}
	switch a.Kind {
	case "int":
		return a.I
	case "str":
		return a.S
	case "bool":
		return a.B
	}
	return nil
}

// cloneInts copies xs into a fresh slice WITH spare capacity filled with a
// sentinel: an append through a sub-slice of an environment-owned slice (or a
// write past its length) then shows up in the environment's snapshot.
func cloneInts(xs []int) []int {
	if xs == nil {
		return nil
	}
	out := make([]int, len(xs), len(xs)+3)
	copy(out, xs)
	spare := out[len(xs):cap(out)]
	for i := range spare {
		spare[i] = -7777
	}
	return out
}

func buildObj(w *World, d *ObjData) *Obj {
	if d == nil {
		return nil
	}
	return &Obj{w: w, V: d.V, Name: d.Name, Xs: cloneInts(d.Xs), Next: buildObj(w, d.Next), L: int64(d.V) * 3, F: float64(d.V) + 0.5}
}

// BuildEnv makes a fresh environment value (sharing nothing with any other)
// bound to world w.
func BuildEnv(w *World, d *EnvData) *Env {
	e := &Env{w: w,
		A: d.A, B: d.B, C: d.C, D: d.D, Z: d.Z, N: d.N, M: d.M, K: d.K,
		P: d.P, Q: d.Q, S: d.S, T: d.T, Re: d.Re,
		Xs: cloneInts(d.Xs), Ys: cloneInts(d.Ys),
		O: buildObj(w, d.O), On: buildObj(w, d.On), Any: d.Any.Value(),
	}
	if d.Ss != nil {
		e.Ss = append([]string{}, d.Ss...)
	}
	e.O2 = buildObj(w, d.O) // a distinct, equal object
	if AliasO2 {
		e.O2 = e.O
	}
	e.Ob2 = localObj(d.B, "ob2")
	pm := map[string]int{"k1": d.A, "zz": 1}
	e.Pm = &pm
	// Mi: one number under keys of several widths (and a string key); Av: a struct
	// VALUE behind interface{} that holds pointers (a failing operation on it must
	// not put their addresses into its error).
	e.MI, e.MS = NamedInt(2), NamedStr("a")
	e.Mi = map[interface{}]int{int8(7): 1, int64(7): 2, float64(7): 3, uint8(7): 4, "k": 5}
	if e.O != nil {
		e.Av = *e.O
	}
	e.Lvl = float64(d.D%3) + 0.5
	e.Emb = Emb{Lvl: d.D % 3, EmbV: d.C}
	e.Info = d.P != d.Q
	e.Index = d.K
	e.U8 = uint8((d.A + 8) * 15)
	e.U16 = uint16(d.B+8) * 300
	e.I8 = int8(d.C * 40)
	e.I64 = int64(d.A) * 1000003
	e.F64 = float64(d.N) + 0.5*float64(d.D%2)
	e.F32 = float32(d.M) + 0.25*float32(d.D%3)
	e.Mp = make(map[string]int, len(d.MpKeys))
	for i, k := range d.MpKeys {
		e.Mp[k] = d.MpVals[i]
	}
	for _, od := range d.Objs {
		e.Objs = append(e.Objs, buildObj(w, od))
	}
	e.Fn = func(a int) int {
		idx, _ := w.enter("Fn", a)
		defer w.leave("Fn")
		return small(a*2-5) + w.salt(idx)
	}
	return e
}

// rebind points the environment (and the objects it owns) at another world:
// the caller's long-lived environment object journals each run separately.
func (e *Env) rebind(w *World) {
	e.w = w
	for _, o := range []*Obj{e.O, e.O2, e.On} {
		for p := o; p != nil; p = p.Next {
			p.w = w
		}
	}
	for _, o := range e.Objs {
		if o != nil {
			o.w = w
		}
	}
	e.Fn = func(a int) int {
		idx, _ := w.enter("Fn", a)
		defer w.leave("Fn")
		return small(a*2-5) + w.salt(idx)
	}
}

// Env representations the library accepts.
const (
	RepStruct = "struct"
	RepPtr    = "ptr"
	RepMap    = "map"
)

// AsRep turns the environment into the representation a scenario asks for.
func (e *Env) AsRep(rep string) interface{} {
	switch rep {
	case RepStruct:
		return *e
	case RepPtr:
		return e
	case RepMap:
		return map[string]interface{}{
			"A": e.A, "B": e.B, "C": e.C, "D": e.D, "Z": e.Z, "N": e.N, "M": e.M, "K": e.K,
			"P": e.P, "Q": e.Q, "S": e.S, "T": e.T, "Re": e.Re,
			"Xs": e.Xs, "Ys": e.Ys, "Ss": e.Ss, "Mp": e.Mp, "O": e.O, "On": e.On, "Any": e.Any,
			"Fn": e.Fn, "Objs": e.Objs,
			"CP": e.CP, "CN": e.CN, "O2": e.O2, "Ob2": e.Ob2, "Nest": e.Nest, "Pm": e.Pm, "Mi": e.Mi, "Av": e.Av, "MI": e.MI, "MS": e.MS, "C8": e.C8, "Lvl": e.Lvl, "EmbV": e.EmbV, "Info": e.Info, "Index": e.Index, "info": e.Info, "index": e.Index, "CL": e.CL, "Tup": e.Tup, "PtrM": e.PtrM,
			"U8": e.U8, "U16": e.U16, "I8": e.I8, "I64": e.I64, "F64": e.F64, "F32": e.F32, "Ff": e.Ff,
			"F1": e.F1, "F2": e.F2, "G0": e.G0, "P1": e.P1, "S1": e.S1, "Mk": e.Mk, "Va": e.Va,
			"An": e.An, "OpA": e.OpA, "OpB": e.OpB, "OpS": e.OpS, "OpI": e.OpI, "C64": e.C64, "CI": e.CI, "CS": e.CS, "CB": e.CB,
		}
	}
	panic("unknown env representation " + rep)
}

func (d *EnvData) String() string { return fmt.Sprintf("%+v", *d) }
