package main

import (
	"fmt"
	"regexp"
	"strconv"

	"github.com/antonmedv/expr"
	"github.com/antonmedv/expr/ast"
	"github.com/antonmedv/expr/parser"
)

var locRe = regexp.MustCompile(`(?s)base: ast\.base\{.*?\},?|Location\{[^}]*\}`)

// genCheck is a development aid: generate programs, compile, run fault-free,
// compare with the reference; print disagreements.
func genCheck(args []string) int {
	n := 2000
	if len(args) > 0 {
		n, _ = strconv.Atoi(args[0])
	}
	seed := uint64(1)
	if len(args) > 1 {
		s, _ := strconv.Atoi(args[1])
		seed = uint64(s)
	}
	bad := 0
	shorter := 0
	compileFail := 0
	for i := 0; i < n && bad < 15; i++ {
		r := NewRNG(DeriveSeed(seed, "gencheck", i))
		d := GenEnvData(r)
		rep := []string{RepStruct, RepPtr, RepMap}[r.Intn(3)]
		cfg := GenCfg{Budget: r.Range(3, 40), Calls: true, Dyn: true, Failing: true, Strings: true, Closures: true, Maps: true, Objects: true, ShortPred: true, NilSafe: true, NoInRange: len(args) > 2}
		cfg.AnyUsable = rep != RepMap || (d.Any != nil && d.Any.Kind == "int")
		g := NewGen(r, cfg)
		var root *N
		switch r.Intn(4) {
		case 0:
			root = g.Bool()
		case 1:
			root = g.Seq()
		case 2:
			root = g.Str()
		default:
			root = g.Int()
		}
		Sanitize(root, cfg, r)
		pr := Print(root, Layout{Mode: r.Intn(3), Salt: r.Next()})
		{
			// the two parenthesisation styles must read back as one tree
			full := Print(root, Layout{FullParen: true})
			min := Print(root, Layout{Salt: 1})
			tf, ef := parser.Parse(full.Src)
			tm, em := parser.Parse(min.Src)
			if ef != nil || em != nil {
				bad++
				fmt.Printf("PARSE FAIL %v %v\n  full: %q\n  min: %q\n", ef, em, full.Src, min.Src)
			} else if locRe.ReplaceAllString(ast.Dump(tf.Node), "") != locRe.ReplaceAllString(ast.Dump(tm.Node), "") {
				bad++
				fmt.Printf("TREE MISMATCH\n  full: %q\n  min: %q\n", full.Src, min.Src)
			} else if len(min.Src) < len(full.Src) {
				shorter++
			}
		}
		stateful := r.Chance(1, 2)
		w1 := NewWorld(stateful, nil, nil)
		e1 := BuildEnv(w1, d)
		w2 := NewWorld(stateful, nil, nil)
		e2 := BuildEnv(w2, d)
		envv := e1.AsRep(rep)
		prog, co := sutCompile(pr.Src, expr.Env(envv))
		if co.Failed() {
			compileFail++
			bad++
			fmt.Printf("COMPILE FAIL i=%d rep=%s: %s\n  src: %q\n", i, rep, co.ErrText(), pr.Src)
			continue
		}
		beginRun(-1, 0)
		so := sutRun(nil, prog, envv)
		ref := NewRef(e2)
		rv, rerr := ref.Eval(root)
		mism := ""
		if so.Panicked {
			mism = "panic escaped: " + so.PanicVal
		} else if (so.Err != nil) != (rerr != nil) {
			mism = fmt.Sprintf("failure mismatch sut=%v ref=%v", so.Err, rerr)
		} else if rerr == nil && Canon(so.Out) != Canon(rv) {
			mism = fmt.Sprintf("value mismatch sut=%s ref=%s", Canon(so.Out), Canon(rv))
		} else if fmt.Sprint(w1.Journal) != fmt.Sprint(w2.Journal) {
			mism = fmt.Sprintf("journal mismatch\n   sut=%v\n   ref=%v", w1.Journal, w2.Journal)
		}
		if mism != "" {
			bad++
			fmt.Printf("MISMATCH i=%d rep=%s stateful=%v: %s\n  src: %q\n  env: %s\n", i, rep, stateful, mism, pr.Src, d)
		}
	}
	fmt.Printf("gencheck: minimal-parenthesis text shorter in %d programs\n", shorter)
	fmt.Printf("gencheck: n=%d bad=%d compileFail=%d hookCalls=%d\n", n, bad, compileFail, hookCalls)
	return 0
}
