package main

import (
	"strconv"
	"strings"
	"unicode/utf8"
)

// N is a node of the harness's own ("mini-expr") syntax tree. It is never the
// repository's ast.Node: the reference evaluator and the printer work on this
// type only, so nothing the library does to its own tree can leak into the
// oracle.
//
// Kinds (K):
//
//	int I | bool B | str S | nil
//	id S                      environment member
//	prop S B=nilsafe C[0]     member access  x.S / x?.S
//	meth S B=nilsafe C[0]=recv C[1:]=args
//	call S C=args             environment function
//	un S C[0]                 S in: not ! - +
//	bin S C[0] C[1]
//	cond C[0] C[1] C[2]
//	arr C                     array literal
//	map C=pairs               map literal
//	pair S C[0]               key: value (key is an identifier-like string)
//	idx C[0] C[1]
//	slice C[0] C[1] C[2]      C[1]/C[2] may be kind "none"
//	bi S C[0] [C[1]]          builtin: len | all any none one filter map count
//	ptr                       '#'
//	none                      absent optional child
type N struct {
	K string `json:"k"`
	S string `json:"s,omitempty"`
	I int    `json:"i,omitempty"`
	B bool   `json:"b,omitempty"`
	C []*N   `json:"c,omitempty"`

	// Filled by Print; not part of the scenario data.
	id         int
	start, end int   // rune offsets [start,end)
	line, col  int   // location the library is expected to attach (1-based line, 0-based column)
	toks       []int // rune offsets at which the node's OWN tokens start (name, operator, brackets, punctuation)
}

func nInt(i int) *N          { return &N{K: "int", I: i} }
func nBool(b bool) *N        { return &N{K: "bool", B: b} }
func nStr(s string) *N       { return &N{K: "str", S: s} }
func nID(s string) *N        { return &N{K: "id", S: s} }
func nNone() *N              { return &N{K: "none"} }
func nPtr() *N               { return &N{K: "ptr"} }
func nUn(op string, a *N) *N { return &N{K: "un", S: op, C: []*N{a}} }
func nBin(op string, a, b *N) *N {
	return &N{K: "bin", S: op, C: []*N{a, b}}
}
func nCond(c, a, b *N) *N { return &N{K: "cond", C: []*N{c, a, b}} }
func nCall(name string, args ...*N) *N {
	return &N{K: "call", S: name, C: args}
}
func nMeth(recv *N, name string, nilsafe bool, args ...*N) *N {
	return &N{K: "meth", S: name, B: nilsafe, C: append([]*N{recv}, args...)}
}
func nProp(recv *N, name string, nilsafe bool) *N {
	return &N{K: "prop", S: name, B: nilsafe, C: []*N{recv}}
}
func nArr(xs ...*N) *N { return &N{K: "arr", C: xs} }
func nIdx(a, i *N) *N  { return &N{K: "idx", C: []*N{a, i}} }
func nSlice(a, from, to *N) *N {
	if from == nil {
		from = nNone()
	}
	if to == nil {
		to = nNone()
	}
	return &N{K: "slice", C: []*N{a, from, to}}
}
func nLen(a *N) *N { return &N{K: "bi", S: "len", C: []*N{a}} }
func nBi(name string, coll, body *N) *N {
	return &N{K: "bi", S: name, C: []*N{coll, body}}
}
func nPair(key string, v *N) *N { return &N{K: "pair", S: key, C: []*N{v}} }
func nMap(pairs ...*N) *N       { return &N{K: "map", C: pairs} }

func (n *N) Clone() *N {
	if n == nil {
		return nil
	}
	c := *n
	c.C = make([]*N, len(n.C))
	for i, k := range n.C {
		c.C[i] = k.Clone()
	}
	return &c
}

// Size counts nodes (excluding "none").
func (n *N) Size() int {
	if n == nil || n.K == "none" {
		return 0
	}
	s := 1
	for _, c := range n.C {
		s += c.Size()
	}
	return s
}

// Walk visits every node pre-order.
func (n *N) Walk(f func(*N)) {
	if n == nil {
		return
	}
	f(n)
	for _, c := range n.C {
		c.Walk(f)
	}
}

// Layout controls how the printer separates tokens. It is scenario data.
type Layout struct {
	// Mode: 0 = single line, single spaces; 1 = line breaks at pseudo-random
	// token boundaries (driven by Salt, no RNG); 2 = as 1 plus tabs/multiple
	// spaces.
	Mode int    `json:"mode"`
	Salt uint64 `json:"salt,omitempty"`
	// Lead: white space (blanks, line breaks) before the first token; Trail: after the last.
	Lead  string `json:"lead,omitempty"`
	Trail string `json:"trail,omitempty"`
	// Pad: that many empty lines, then that many blanks, before Lead (far lines and
	// far columns without storing the white space).
	Pad [2]int `json:"pad,omitempty"`
	// FullParen: every unary, binary and conditional form in its own
	// parentheses. Otherwise a third of the layouts (by Salt) print only the
	// parentheses the grammar's precedence and associativity rules require, so
	// that those rules decide what the library makes of the text.
	FullParen bool `json:"full_paren,omitempty"`
}

func (l Layout) minParen() bool { return !l.FullParen && l.Salt%3 == 1 }

// binPrec: the documented precedence table (all left-associative except **).
var binPrec = map[string]int{"or": 10, "||": 10, "and": 15, "&&": 15, "==": 20, "!=": 20, "<": 20, ">": 20, ">=": 20, "<=": 20,
	"not in": 20, "in": 20, "matches": 20, "contains": 20, "startsWith": 20, "endsWith": 20, "..": 25, "+": 30, "-": 30, "*": 60, "/": 60, "%": 60, "**": 70}

func isOpForm(n *N) bool { return n.K == "un" || n.K == "bin" || n.K == "cond" }

// bareIn: may the operator form c, the i-th child of p, stand without its own
// parentheses and still be read back as the same tree?
func bareIn(p *N, i int, c *N) bool {
	switch p.K {
	case "call", "arr", "pair":
		return true // delimited by brackets and commas
	case "meth":
		return i > 0
	case "idx":
		return i == 1
	case "slice":
		return i > 0 && c.K != "cond"
	case "bi":
		return true
	case "cond":
		if c.K == "cond" {
			return i > 0 // a ? b : c ? d : e reads as a ? b : (c ? d : e)
		}
		return true
	case "un":
		return c.K == "un" // the operand of a sign ends before any binary operator
	case "bin":
		pp, ok := binPrec[p.S]
		if !ok {
			return false
		}
		switch c.K {
		case "cond":
			return false
		case "un":
			if i == 0 && (c.S == "not" || c.S == "!") {
				return pp < 50
			}
			return true
		default:
			cp, ok := binPrec[c.S]
			if !ok {
				return false
			}
			rightAssoc := p.S == "**"
			if cp != pp {
				return cp > pp
			}
			return (i == 0) != rightAssoc
		}
	}
	return false
}

func markBare(n *N, bare map[*N]bool) {
	for i, c := range n.C {
		if c == nil {
			continue
		}
		if isOpForm(c) && bareIn(n, i, c) {
			bare[c] = true
		}
		markBare(c, bare)
	}
}

type printer struct {
	sb     strings.Builder
	off    int // rune offset
	line   int
	col    int
	lay    Layout
	tok    uint64
	nextID int
	nodes  []*N
	cur    *N          // node whose own tokens are being emitted
	bare   map[*N]bool // operator forms printed without their own parentheses
}

func (p *printer) open(n *N) {
	if !p.bare[n] {
		p.tk("(")
	}
}
func (p *printer) close(n *N) {
	if !p.bare[n] {
		p.tk(")")
	}
}

// Printed is the result of printing a tree: the source text plus, for every
// node, its span and the location of its anchor token.
type Printed struct {
	Src   string
	Nodes []*N // by id
	Lines []string
}

func Print(root *N, lay Layout) *Printed {
	p := &printer{line: 1, lay: lay}
	if lay.minParen() {
		p.bare = map[*N]bool{}
		if isOpForm(root) {
			p.bare[root] = true
		}
		markBare(root, p.bare)
	}
	if lay.Pad[0] > 0 || lay.Pad[1] > 0 {
		p.raw(strings.Repeat("\n", lay.Pad[0]) + strings.Repeat(" ", lay.Pad[1]))
	}
	p.raw(lay.Lead)
	p.node(root)
	p.raw(lay.Trail)
	src := p.sb.String()
	return &Printed{Src: src, Nodes: p.nodes, Lines: strings.Split(src, "\n")}
}

func (p *printer) raw(s string) {
	p.sb.WriteString(s)
	for _, r := range s {
		p.off++
		if r == '\n' {
			p.line++
			p.col = 0
		} else {
			p.col++
		}
	}
}

// sep emits the separator between two tokens.
func (p *printer) sep() {
	p.tok++
	switch p.lay.Mode {
	case 0:
		p.raw(" ")
	default:
		h := mix(p.lay.Salt, p.tok)
		switch {
		case h%5 == 0:
			p.raw("\n")
			if p.lay.Mode == 2 && h%3 == 0 {
				p.raw("  \t")
			}
		case p.lay.Mode == 2 && h%7 == 0:
			p.raw("   ")
		case p.lay.Mode == 2 && h%11 == 0:
			p.raw(" \r ") // a lone carriage return is white space, not a line break
		default:
			p.raw(" ")
		}
	}
}

// tok emits a token and returns its location.
func (p *printer) token(s string) (line, col int) {
	line, col = p.line, p.col
	p.tk(s)
	return
}

// tk emits a token of the current node and records where it starts.
func (p *printer) tk(s string) {
	if p.cur != nil {
		p.cur.toks = append(p.cur.toks, p.off)
	}
	p.raw(s)
}

func quote(s string) string {
	// Double-quoted with the escapes the lexer documents; multi-byte runes are
	// written raw so that they occupy one column but several bytes.
	var sb strings.Builder
	sb.WriteByte('"')
	for _, r := range s {
		switch r {
		case '"':
			sb.WriteString(`\"`)
		case '\\':
			sb.WriteString(`\\`)
		case '\n':
			sb.WriteString(`\n`)
		case '\t':
			sb.WriteString(`\t`)
		default:
			if r < 0x20 || r == utf8.RuneError {
				sb.WriteString(`\x` + strconv.FormatInt(int64(r)|0x100, 16)[1:])
			} else {
				sb.WriteRune(r)
			}
		}
	}
	sb.WriteByte('"')
	return sb.String()
}

func (p *printer) begin(n *N) {
	n.id = p.nextID
	p.nextID++
	p.nodes = append(p.nodes, n)
	n.start = p.off
}

func (p *printer) node(n *N) {
	p.begin(n)
	outer := p.cur
	p.cur = n
	n.toks = n.toks[:0]
	defer func() { n.end = p.off; p.cur = outer }()
	switch n.K {
	case "int":
		if n.I < 0 {
			// A negative literal is spelled as a parenthesised unary minus; the
			// library folds it or negates at run time, both give the same int.
			p.tk("(")
			n.line, n.col = p.token("-")
			p.tk(strconv.Itoa(-n.I))
			p.tk(")")
		} else {
			sp := strconv.Itoa(n.I)
			if p.lay.Mode == 2 {
				// other spellings of the same decimal number: leading zeros, digit separators
				switch h := mix(p.lay.Salt, uint64(p.nextID)*31+7) % 11; {
				case h == 0:
					sp = "0" + sp
				case h == 1 && len(sp) >= 2:
					sp = sp[:1] + "_" + sp[1:]
				case h == 2:
					sp = "00" + sp
				}
			}
			n.line, n.col = p.token(sp)
		}
	case "bool":
		if n.B {
			n.line, n.col = p.token("true")
		} else {
			n.line, n.col = p.token("false")
		}
	case "str":
		n.line, n.col = p.token(quote(n.S))
	case "nil":
		n.line, n.col = p.token("nil")
	case "id":
		n.line, n.col = p.token(n.S)
	case "ptr":
		n.line, n.col = p.token("#")
	case "prop":
		p.recv(n.C[0])
		if n.B {
			p.tk("?.")
		} else {
			p.tk(".")
		}
		n.line, n.col = p.token(n.S)
	case "meth":
		p.recv(n.C[0])
		if n.B {
			p.tk("?.")
		} else {
			p.tk(".")
		}
		n.line, n.col = p.token(n.S)
		p.args(n.C[1:])
	case "call":
		n.line, n.col = p.token(n.S)
		p.args(n.C)
	case "un":
		p.open(n)
		n.line, n.col = p.token(n.S)
		p.sep()
		p.node(n.C[0])
		p.close(n)
	case "bin":
		p.open(n)
		p.node(n.C[0])
		p.sep()
		n.line, n.col = p.token(n.S)
		if n.S == "not in" {
			// the lexer recognises "not in" only when a space (not a line
			// break) follows it; token layout is not what is being tested
			p.raw(" ")
		} else {
			p.sep()
		}
		p.node(n.C[1])
		p.close(n)
	case "cond":
		p.open(n)
		p.node(n.C[0])
		p.sep()
		n.line, n.col = p.token("?")
		p.sep()
		p.node(n.C[1])
		p.sep()
		p.tk(":")
		p.sep()
		p.node(n.C[2])
		p.close(n)
	case "arr":
		n.line, n.col = p.token("[")
		for i, c := range n.C {
			if i > 0 {
				p.tk(",")
				p.sep()
			}
			p.node(c)
		}
		p.tk("]")
	case "map":
		n.line, n.col = p.token("{")
		for i, c := range n.C {
			if i > 0 {
				p.tk(",")
				p.sep()
			}
			p.node(c)
		}
		p.tk("}")
	case "pair":
		n.line, n.col = p.token(quote(n.S))
		p.tk(":")
		p.sep()
		p.node(n.C[0])
	case "idx":
		p.recv(n.C[0])
		n.line, n.col = p.token("[")
		p.node(n.C[1])
		p.tk("]")
	case "slice":
		p.recv(n.C[0])
		n.line, n.col = p.token("[")
		if n.C[1].K != "none" {
			p.node(n.C[1])
		}
		p.tk(":")
		if n.C[2].K != "none" {
			p.node(n.C[2])
		}
		p.tk("]")
	case "bi":
		n.line, n.col = p.token(n.S)
		p.tk("(")
		p.node(n.C[0])
		if len(n.C) > 1 {
			p.tk(",")
			p.sep()
			p.tk("{")
			p.sep()
			p.node(n.C[1])
			p.sep()
			p.tk("}")
		}
		p.tk(")")
	case "none":
	default:
		panic("printer: unknown node kind " + n.K)
	}
}

// recv prints the operand of a postfix form; literals need parentheses there
// (the grammar applies postfix operators to a literal only inside brackets).
func (p *printer) recv(n *N) {
	switch n.K {
	case "int", "str", "bool", "nil":
		p.tk("(")
		p.node(n)
		p.tk(")")
	default:
		p.node(n)
	}
}

func (p *printer) args(args []*N) {
	p.tk("(")
	for i, a := range args {
		if i > 0 {
			p.tk(",")
			p.sep()
		}
		p.node(a)
	}
	p.tk(")")
}

// OffsetOf converts a (line, col) location (1-based line, 0-based rune column)
// into a rune offset in the printed source; ok is false when the location is
// outside the source.
func (pr *Printed) OffsetOf(line, col int) (int, bool) {
	if line < 1 || line > len(pr.Lines) || col < 0 {
		return 0, false
	}
	off := 0
	for i := 0; i < line-1; i++ {
		off += utf8.RuneCountInString(pr.Lines[i]) + 1
	}
	w := utf8.RuneCountInString(pr.Lines[line-1])
	if col > w { // col == w: the position just past the last rune (end of line) is tolerated
		return 0, false
	}
	return off + col, true
}
