package main

import (
	"fmt"
	"os"
)

func usage() {
	fmt.Fprintln(os.Stderr, "usage: verifsim check <prop> <quick|thorough> | worker ... | replay <file> | selftest | gencheck")
	os.Exit(2)
}

func main() {
	if len(os.Args) < 2 {
		usage()
	}
	ensureRaceLog()
	installHook()
	switch os.Args[1] {
	case "check":
		os.Exit(checkMain(os.Args[2:]))
	case "worker":
		os.Exit(workerMain(os.Args[2:]))
	case "replay":
		os.Exit(replayMain(os.Args[2:]))
	case "digest":
		os.Exit(digestMain(os.Args[2:]))
	case "dump":
		os.Exit(dumpMain(os.Args[2:]))
	case "runone":
		os.Exit(runOneMain(os.Args[2:]))
	case "one":
		os.Exit(oneMain(os.Args[2:]))
	case "gencheck":
		os.Exit(genCheck(os.Args[2:]))
	default:
		usage()
	}
}
