package main

import (
	"encoding/json"
	"fmt"
	"strconv"
	"strings"

	"github.com/antonmedv/expr"
	"github.com/antonmedv/expr/vm"
)

// ---------------------------------------------------------------------------
// vmsim: histories of runs on long-lived vm.VM values. After every op the
// (value, error) of the reused VM must equal what a fresh VM returns for the
// same program on an identical world (C07). The same histories, with deep
// snapshots of program and environment around every op, serve C09(a,b).
// Only the VM value survives a failed or crashed run, exactly as only durable
// state survives a restart.
// ---------------------------------------------------------------------------

type ProgSpec struct {
	Kind string `json:"kind"` // cheap | nested-fail | alloc | touching | const-heavy | overload | probe
	Tree *N     `json:"tree,omitempty"`
	// Raw (kind=probe): source text outside the reference fragment, possibly using
	// constructs this version of the library does not have. A probe the library
	// rejects at Compile is skipped; an accepted one takes part in the history
	// (oracles that need no reference model: fresh-VM comparison, snapshots).
	Raw      string `json:"raw,omitempty"`
	// NoEnv (C08): compiled without expr.Env - no static types, generic
	// fetch/call instructions; falls back to the typed compilation when the
	// untyped one is rejected.
	NoEnv bool `json:"no_env,omitempty"`
	Optimize bool   `json:"optimize"`
	Source   string `json:"source_text,omitempty"`
}

type VMOp struct {
	VM     int         `json:"vm"`
	Prog   int         `json:"prog"`
	Env    int         `json:"env"`    // index into Envs
	Budget int         `json:"budget"` // vm.MemoryBudget for this op
	Crash  int         `json:"crash"`  // crash at this instruction index; -1 = none
	Faults []CallFault `json:"faults,omitempty"`
	// Grid: run Prog crashed at *every* instruction k of its trace, each time
	// followed by program Probe on the same VM (crash-point enumeration).
	Grid  bool `json:"grid,omitempty"`
	Probe int  `json:"probe,omitempty"`
	// Feed: the value the previous successful run on this VM returned is passed
	// to this run as the environment's dynamic member Any (the live object for the
	// reused VM; a deep copy taken when it was returned for the fresh-VM run).
	Feed bool `json:"feed_previous_result,omitempty"`
	// Rep, when set, is the environment representation for this op only (the
	// programs were compiled for the scenario's representation).
	Rep string `json:"env_representation,omitempty"`
	// Persist: the op runs on the VM's PERSISTENT environment object (built once per
	// VM and kept by the caller), after the caller has changed it in place as
	// Mutate says; the fresh-VM run gets a newly built environment with the same
	// contents. Only meaningful with the scenario's own representation.
	Persist bool   `json:"persistent_env,omitempty"`
	Mutate  string `json:"mutate,omitempty"` // "" | "Ss:<idx>:<value>" | "Xs:<idx>:<int>" | "A:<int>"
	// NilEnv: the environment is a typed nil pointer ((*Env)(nil)).
	NilEnv bool `json:"nil_pointer_env,omitempty"`
}

type VMScenario struct {
	Seed     uint64     `json:"seed"`
	Index    int        `json:"index"`
	Rep      string     `json:"env_representation"`
	Stateful bool       `json:"stateful_functions"`
	VMs      int        `json:"vms"`
	Progs    []ProgSpec `json:"programs"`
	Envs     []*EnvData `json:"envs"`
	Ops      []VMOp     `json:"ops"`
	// ConstExpr: CI, CS and CB are marked as constant expressions at Compile.
	ConstExpr bool `json:"const_expr_options,omitempty"`
	// Operators: the ** operator is overloaded with OpA and OpB (both accept two *Obj).
	Operators bool `json:"operator_options,omitempty"`
	// CrossProcess (C09 only): digests of the compiled programs as computed by
	// another process; a compilation here must produce the same.
	CrossProcess []string `json:"cross_process_digests,omitempty"`
}

func (sc *VMScenario) clone() *VMScenario {
	b, _ := json.Marshal(sc)
	var c VMScenario
	json.Unmarshal(b, &c)
	return &c
}

const defaultBudget = 1000000

func genVMScenario(seed uint64, idx int, tier string, snapshotBias bool) *VMScenario {
	r := NewRNG(seed)
	sc := &VMScenario{Seed: seed, Index: idx}
	sc.Rep = []string{RepStruct, RepPtr, RepMap}[r.Intn(3)]
	sc.Stateful = r.Chance(1, 2)
	sc.VMs = r.Range(1, 3)

	base := GenEnvData(r)
	// Larger ranges so that allocating programs matter for the budget.
	base.N = r.Range(0, 3)
	base.M = r.Range(5, 60)
	if r.Chance(1, 4) {
		base.M = r.Range(100, 400)
	}
	if r.Chance(1, 8) {
		base.M = r.Range(1100, 2600) // deep operand stacks: map(N..M, ...) keeps every element on the stack
	}
	if r.Chance(1, 3) {
		base.Ss = nil
		for i := 0; i < 9; i++ {
			base.Ss = append(base.Ss, r.Pick(strPool))
		}
	}
	base.A = r.Range(3, 40)
	if base.Z == 0 {
		base.Z = 1
	}
	bad := *base
	bad.Z = 0 // divisor fault: programs dividing by Z fail, possibly inside nested closures
	bad.K = 9 // index fault
	if r.Chance(1, 2) {
		bad.Re = "([" // pattern fault: run-time 'matches' fails to compile it
	}
	sc.Envs = []*EnvData{base, &bad}
	if r.Chance(1, 2) {
		alt := GenEnvData(r)
		sc.Envs = append(sc.Envs, alt)
	}

	np := r.Range(3, 6)
	for i := 0; i < np; i++ {
		g0 := r.Fork()
		var ps ProgSpec
		ps.Optimize = !r.Chance(1, 4)
		switch {
		case i == 0 || r.Chance(1, 3):
			ps.Kind = "alloc"
			ps.Tree = genAllocProgram(g0)
		case i == 1 || r.Chance(1, 3):
			ps.Kind = "nested-fail"
			ps.Tree = genNestedFail(g0)
		default:
			ps.Kind = "cheap"
			cfg := GenCfg{Budget: g0.Range(3, 18), Calls: true, Failing: true, Strings: true, Closures: true, Maps: true, Objects: true, ShortPred: true, NilSafe: true, SliceCall: true, ConstFns: true}
			cfg.AnyUsable = false
			g := NewGen(g0, cfg)
			ps.Tree = genRoot(g, g0)
		}
		if snapshotBias && r.Chance(1, 2) {
			ps.Kind = "touching"
			ps.Tree = genTouching(g0)
		} else if snapshotBias && r.Chance(1, 3) {
			ps.Kind = "const-heavy"
			ps.Tree = genConstHeavy(g0)
		}
		if r.Chance(1, 6) {
			ps.Kind = "feedback"
			ps.Tree = genFeedback(g0)
		}
		if r.Chance(1, 6) {
			// tiny programs whose single member access sits at the same bytecode offset
			ps.Kind = "tiny"
			ps.NoEnv = false
			switch g0.Intn(8) {
			case 0:
				ps.Tree = nProp(nID("O"), "V", false)
			case 1:
				ps.Tree = nProp(nID("O"), "Name", false)
			case 2:
				ps.Tree = nProp(nID("O"), "Xs", false)
			case 3:
				ps.Tree = nBi("map", nID("Objs"), nProp(nPtr(), "V", false))
			case 4:
				ps.Tree = nBi("map", nID("Objs"), nProp(nPtr(), "Name", false))
			case 5:
				ps.Tree = nBin("in", nStr(g0.Pick(strPool)), nID("Ss"))
			case 6:
				ps.Tree = nBin("not in", nID("S"), nID("Ss"))
			default:
				ps.Tree = nProp(nID("O"), "L", false)
			}
		}
		if r.Chance(1, 6) {
			ps.NoEnv = true
			if r.Chance(1, 2) {
				ps.Kind = "untyped-calls"
				ps.Tree = nArr(nCall("Va", nID("A"), nInt(1)), nCall("Tup", nID("B"), nID("A")), nCall("F1", nID("C")))
			}
		}
		if snapshotBias && r.Chance(1, 6) {
			ps.Kind = "probe"
			ps.Tree = nil
			ps.Raw = g0.Pick(probeSources)
		}
		ps.Source = ps.Src()
		sc.Progs = append(sc.Progs, ps)
	}

	membershipProg := -1
	if len(base.Ss) >= 8 {
		ps := ProgSpec{Kind: "tiny", Tree: nBin(r.Pick([]string{"in", "not in"}), nID("S"), nID("Ss")), Optimize: true}
		ps.Source = ps.Src()
		sc.Progs = append(sc.Progs, ps)
		membershipProg = len(sc.Progs) - 1
	}
	// Budgets are placed just above the largest single-run need so that the
	// sum over the history crosses the budget many times.
	maxT := 1
	for _, p := range sc.Progs {
		w := NewWorld(sc.Stateful, nil, nil)
		ref := NewRef(BuildEnv(w, base))
		if p.Tree == nil {
			continue
		}
		ref.Eval(p.Tree)
		t := 0
		for _, a := range ref.Allocs {
			t += a
		}
		if t > maxT && t < 100000 {
			maxT = t
		}
	}
	tight := maxT + r.Range(1, 6)
	nops := r.Range(6, 40)
	if tier == "thorough" {
		nops = r.Range(10, 60)
	}
	budget := tight
	for i := 0; i < nops; i++ {
		op := VMOp{VM: r.Intn(sc.VMs), Prog: r.Intn(len(sc.Progs)), Crash: -1}
		if i > 0 && r.Chance(1, 3) {
			// the same program again on the same VM (what a long-lived VM is for)
			op.VM, op.Prog = sc.Ops[i-1].VM, sc.Ops[i-1].Prog
		}
		switch r.Intn(8) {
		case 0, 2:
			op.Env = 1
		case 1:
			op.Env = r.Intn(len(sc.Envs))
		}
		if i > 0 && op.Prog == sc.Ops[i-1].Prog && r.Chance(1, 2) {
			op.Env = sc.Ops[i-1].Env // ... and on an equal environment
		}
		if r.Chance(1, 6) { // the budget itself changes between ops
			switch r.Intn(4) {
			case 0:
				budget = defaultBudget
			case 1:
				budget = tight/2 + 1
			case 2:
				budget = tight * 2
			default:
				budget = tight
			}
		}
		op.Budget = budget
		if r.Chance(1, 6) {
			op.Crash = r.Intn(60)
		}
		if r.Chance(1, 4) {
			op.Feed = true
		}
		if r.Chance(1, 8) {
			op.Rep = []string{RepStruct, RepPtr, RepMap}[r.Intn(3)]
		}
		if r.Chance(1, 5) {
			op.Persist, op.Rep, op.Feed, op.Env = true, "", false, 0
			if membershipProg >= 0 && r.Chance(1, 2) {
				// membership in the caller's long list, whose elements the caller replaces in place
				op.Prog = membershipProg
				op.Mutate = fmt.Sprintf("Ss:%d:%s", r.Intn(9), r.Pick([]string{base.S, base.S, "zz", "other"}))
				sc.Ops = append(sc.Ops, op)
				continue
			}
			switch r.Intn(4) {
			case 0:
				op.Mutate = fmt.Sprintf("Ss:%d:%s", r.Intn(9), r.Pick([]string{"a", "zz", "k1", "new"}))
			case 1:
				op.Mutate = fmt.Sprintf("Xs:%d:%d", r.Intn(4), r.Range(-3, 9))
			case 2:
				op.Mutate = fmt.Sprintf("A:%d", r.Range(1, 30))
			}
		}
		if r.Chance(1, 30) {
			op.NilEnv, op.Persist, op.Feed = true, false, false
		}
		if r.Chance(1, 6) {
			op.Faults = []CallFault{{Idx: r.Intn(6), Kind: allFaultKinds[r.Intn(len(allFaultKinds))]}}
		}
		sc.Ops = append(sc.Ops, op)
	}
	// crash-point enumeration
	grids := 1
	if tier == "thorough" {
		grids = 2
	}
	for j := 0; j < grids; j++ {
		sc.Ops = append(sc.Ops, VMOp{VM: r.Intn(sc.VMs), Prog: r.Intn(len(sc.Progs)), Probe: r.Intn(len(sc.Progs)), Env: r.Intn(2), Budget: tight, Crash: -1, Grid: true})
	}
	return sc
}

// genAllocProgram builds a program from the allocating sub-fragment.
func genAllocProgram(r *RNG) *N {
	rng := func() *N {
		switch r.Intn(4) {
		case 0:
			return nBin("..", nID("N"), nID("M"))
		case 1:
			return nBin("..", nInt(1), nID("A"))
		case 2:
			return nBin("..", nID("M"), nID("N")) // descending at run time
		default:
			return nBin("..", nInt(0), nID("M"))
		}
	}
	switch r.Intn(7) {
	case 0:
		return nLen(rng())
	case 1:
		return nBi("map", rng(), nPtr())
	case 2:
		return nArr(nLen(rng()), nLen(rng()))
	case 3:
		return nLen(nBi("filter", rng(), nBin(">", nPtr(), nInt(r.Range(0, 6)))))
	case 4:
		// outer bounds read from the environment (D in 0..5): a literal range would be
		// built at compile time by the optimiser, and then is not a run-time allocation
		return nLen(nBi("map", nBin("..", nInt(1), nID("D")), nLen(rng())))
	case 5:
		return nMap(nPair("k1", nLen(rng())), nPair("k2", nID("A")), nPair("k3", nArr(nID("A"), nID("B"))))
	default:
		cfg := GenCfg{Budget: r.Range(5, 20), Calls: true, Closures: true, Maps: true, AllocOnly: true, SliceCall: true}
		g := NewGen(r, cfg)
		return nLen(g.Seq())
	}
}

// genNestedFail builds a program that can fail inside doubly nested closures:
// by data (Z == 0, K out of range in the "bad" environment) or by a call fault.
func genNestedFail(r *RNG) *N {
	var inner *N
	switch r.Intn(4) {
	case 0:
		inner = nBin(">", nBin("/", nPtr(), nID("Z")), nInt(r.Range(-2, 2)))
	case 1:
		inner = nCall("P1", nCall("F1", nPtr()))
	case 2:
		inner = nBin("<", nIdx(nID("Xs"), nID("K")), nCall("F2", nPtr(), nID("A")))
	default:
		inner = nBin("==", nBin("%", nCall("Fn", nPtr()), nID("Z")), nInt(0))
	}
	mid := nBi(r.Pick([]string{"count", "count", "filter"}), nBin("..", nInt(1), nInt(r.Range(2, 4))), inner)
	if mid.S == "filter" {
		mid = nLen(mid)
	}
	return nBi("map", nBin("..", nID("N"), nInt(r.Range(3, 6))), nBin("+", mid, nPtr()))
}

// probeSources are feature probes: sources outside the reference fragment,
// some using constructs this version of the library may not have (they are
// skipped when Compile rejects them). They aim at the places where a library
// that shared memory with its inputs would write: sub-slices of
// environment-owned slices with spare capacity, concatenations, conversions.
var probeSources = []string{
	"Xs[:1] + Ys", "Xs[0:1] + Xs[1:]", "Xs + Ys", "Xs[:1] + [Xs[0] + 1]", "Ys[:0] + Xs", "Ss[:1] + Ss",
	"S + T", "Xs[:1]", "Xs[1:]", "filter(Xs[:2], {# > 0})", "map(Xs[:1], {# + 1})",
	"O.Xs[:1] + Xs", "Xs[:len(Xs) - 1] + [0]", "[Xs[:1], Ys]", "{\"k1\": Xs[:1]}",
	"Xs[:1] + map(Ys, {#})", "map(Objs, {#.V})", "O.Xs[:1]", "Mp", "len(Xs[:1] + Ys)",
	// members that exist only for some environment representations (pointer-receiver
	// method, lower-case map keys): whether they compile must depend on the
	// representation alone, not on what the process compiled earlier
	"PtrM(1)", "PtrM(A) + 1", "index + 1", "not info",
	// a field promoted from an embedded pointer that is nil: reading it fails, it must not be "repaired" in the caller's value
	"PromV", "PromV + 1", "[A, PromV]", "EmbV + Lvl",
	// a number looked up in a map whose keys hold it under other widths; failing
	// operations on a struct value that holds pointers
	"Mi[7]", "Mi[A - A + 7]", "[Mi[7], Mi[\"k\"]]", "Av[1:2]", "Av[0]", "Av + 1", "Av.Nope", "len(Av)", "Av in Xs", "Av[A:]", "-Av",
}

// genFeedback builds programs that return nested VM-built collections and/or
// read the dynamic member Any (which a Feed op sets to an earlier result).
func genFeedback(r *RNG) *N {
	pair := func() *N { return nArr(nPtr(), nBin("*", nPtr(), nInt(2))) }
	switch r.Intn(7) {
	case 0:
		return nBi("map", nID("Xs"), pair())
	case 1:
		return nArr(nArr(nID("A"), nID("B")), nID("Any"))
	case 2:
		return nArr(nBi("map", nID("Ys"), pair()), nID("Any"), nArr(nID("C")))
	case 3:
		return nBi("map", nBin("..", nInt(1), nID("D")), nArr(nPtr(), nID("Any")))
	case 4:
		return nMap(nPair("k1", nArr(nID("A"), nArr(nID("B")))), nPair("k2", nID("Any")))
	case 5:
		return nID("Any")
	default:
		return nArr(nID("Any"), nBi("filter", nID("Xs"), nBin(">", nPtr(), nInt(0))), nArr(nArr(nID("K"))))
	}
}

func cloneEnvData(d *EnvData) *EnvData {
	b, _ := json.Marshal(d)
	var c EnvData
	json.Unmarshal(b, &c)
	return &c
}

// applyMutation changes the environment in place (the same slices, the same
// object) and its description in the same way.
func applyMutation(d *EnvData, e *Env, m string) {
	parts := strings.SplitN(m, ":", 3)
	switch parts[0] {
	case "Ss":
		if len(parts) == 3 {
			i, _ := strconv.Atoi(parts[1])
			if i < len(e.Ss) && i < len(d.Ss) {
				e.Ss[i] = parts[2]
				d.Ss[i] = parts[2]
			}
		}
	case "Xs":
		if len(parts) == 3 {
			i, _ := strconv.Atoi(parts[1])
			v, _ := strconv.Atoi(parts[2])
			if i < len(e.Xs) && i < len(d.Xs) {
				e.Xs[i] = v
				d.Xs[i] = v
			}
		}
	case "A":
		if len(parts) >= 2 {
			v, _ := strconv.Atoi(parts[1])
			e.A, d.A = v, v
			e.U8 = uint8((d.A + 8) * 15)
			e.I64 = int64(d.A) * 1000003
			if e.Pm != nil {
				(*e.Pm)["k1"] = d.A
			}
		}
	}
}

// deepCopy copies the collections the VM builds (and the ones the world hands out).
func deepCopy(v interface{}) interface{} {
	deepCopyBudget = 200000
	return deepCopyN(v, 0)
}

// deepCopyBudget bounds the number of nodes one deepCopy may create (a value that
// aliases itself can unfold exponentially). Only the sequential engines use it.
var deepCopyBudget int

// deepCopyN: a value that refers to itself (possible only when the library has
// corrupted it) is cut at depth 64 instead of recursing forever.
func deepCopyN(v interface{}, depth int) interface{} {
	if depth > 64 {
		return "<deeper than 64 levels: cyclic value?>"
	}
	deepCopyBudget--
	if deepCopyBudget < 0 {
		return "<copy cut: more than 200000 nodes>"
	}
	switch x := v.(type) {
	case []interface{}:
		out := make([]interface{}, len(x))
		for i, e := range x {
			out[i] = deepCopyN(e, depth+1)
		}
		return out
	case []int:
		return append([]int{}, x...)
	case []string:
		return append([]string{}, x...)
	case map[string]interface{}:
		out := make(map[string]interface{}, len(x))
		for k, e := range x {
			out[k] = deepCopyN(e, depth+1)
		}
		return out
	}
	return v
}

// withAny returns the environment value (in representation rep) with its
// dynamic member Any replaced.
func withAny(e *Env, rep string, any interface{}) interface{} {
	e.Any = any
	return e.AsRep(rep)
}

// genTouching builds programs biased toward the places a write to shared data
// would go: filter/map/slices over environment-owned slices, over folded
// constant slices, over ranges; membership on environment maps with absent
// keys; nil-safe access to absent members.
func genTouching(r *RNG) *N {
	envSeq := func() *N { return nID(r.Pick([]string{"Xs", "Ys"})) }
	switch r.Intn(11) {
	case 9:
		// equality and membership of pointers to equal objects
		return nArr(nBin("==", nID("O"), nID("O2")), nBin("!=", nID("O2"), nProp(nID("O"), "Next", false)), nBin("in", nID("O2"), nID("Objs")))
	case 10:
		return nBin(r.Pick([]string{"==", "!="}), nID("O2"), nID("O"))
	case 0:
		return nBi("filter", envSeq(), nBin(">", nPtr(), nInt(r.Range(-2, 3))))
	case 1:
		return nBi("map", envSeq(), nBin("*", nPtr(), nInt(2)))
	case 2:
		return nSlice(envSeq(), nInt(r.Range(0, 2)), nInt(r.Range(1, 4)))
	case 3:
		return nBi("filter", nArr(nInt(3), nInt(1), nInt(2)), nBin(">", nPtr(), nInt(1))) // folded constant slice
	case 4:
		return nBin("in", nStr(r.Pick([]string{"absent", "k1", "zz"})), nID("Mp"))
	case 5:
		return nIdx(nID("Mp"), nStr(r.Pick([]string{"absent", "k2"})))
	case 6:
		return nBin("==", nProp(nProp(nID("On"), "Next", true), "V", true), &N{K: "nil"})
	case 7:
		return nBi("filter", nSlice(nBin("..", nInt(1), nInt(6)), nInt(1), nil), nBin("in", nPtr(), envSeq()))
	default:
		return nBi("map", nBi("filter", nProp(nID("O"), "Xs", false), nBool(true)), nBin("+", nPtr(), nID("A")))
	}
}

// Src is the program's source text.
func (p ProgSpec) Src() string {
	if p.Tree == nil {
		return p.Raw
	}
	// Half of the programs (decided by the text itself, so that the source follows
	// the tree through shrinking) are laid out over several lines with tabs and
	// runs of blanks: error snippets are cut from, and tabs replaced in, such text.
	flat := Print(p.Tree, Layout{}).Src
	h := uint64(14695981039346656037)
	for i := 0; i < len(flat); i++ {
		h = (h ^ uint64(flat[i])) * 1099511628211
	}
	if h%2 == 0 {
		return Print(p.Tree, Layout{Mode: 2, Salt: h}).Src
	}
	return flat
}

// vmOpts are the compile options of a vmsim scenario.
func vmOpts(sc *VMScenario, p ProgSpec, sample interface{}) []expr.Option {
	opts := []expr.Option{expr.Env(sample)}
	if p.NoEnv {
		// untyped compilation (generic fetch/call instructions); used only when the
		// untyped compiler takes the program
		o := []expr.Option{}
		if !p.Optimize {
			o = append(o, expr.Optimize(false))
		}
		if _, co := sutCompile(p.Src(), o...); !co.Failed() {
			return o
		}
	}
	if !p.Optimize {
		opts = append(opts, expr.Optimize(false))
	}
	if sc.ConstExpr {
		opts = append(opts, expr.ConstExpr("CI"), expr.ConstExpr("CS"), expr.ConstExpr("CB"))
	}
	if sc.Operators {
		opts = append(opts, expr.Operator("**", "OpA", "OpB"))
	}
	return opts
}

type compiledProg struct {
	prog *vm.Program
	src  string
}

func compileAll(sc *VMScenario, ctx *RunCtx, prop string) ([]compiledProg, *Finding) {
	out := make([]compiledProg, len(sc.Progs))
	for i, p := range sc.Progs {
		src := p.Src()
		w0 := NewWorld(false, nil, nil)
		sample := BuildEnv(w0, sc.Envs[0]).AsRep(sc.Rep)
		pr, co := sutCompile(src, vmOpts(sc, p, sample)...)
		if co.Failed() {
			if p.Tree == nil && !co.Panicked {
				ctx.Count("probes_rejected_by_compile", 1)
				out[i] = compiledProg{nil, src}
				continue
			}
			return nil, &Finding{Class: prop + "/compile-rejected", Detail: "Compile rejected a well-typed program of the fragment: " + co.ErrText() + "\nsource: " + src}
		}
		if p.Tree == nil {
			ctx.Count("probes_accepted", 1)
		}
		out[i] = compiledProg{pr, src}
	}
	return out, nil
}

// oneRun runs prog on machine (nil = fresh VM) with a fresh world.
func opRep(sc *VMScenario, op VMOp) string {
	if op.Rep != "" {
		return op.Rep
	}
	return sc.Rep
}

func oneRun(sc *VMScenario, machine *vm.VM, cp compiledProg, op VMOp, crash int) (Outcome, []CallRec, interface{}) {
	w := NewWorld(sc.Stateful, op.Faults, nil)
	envv := BuildEnv(w, sc.Envs[op.Env]).AsRep(opRep(sc, op))
	vm.MemoryBudget = op.Budget
	beginRun(crash, 0)
	out := sutRun(machine, cp.prog, envv)
	return out, w.Journal, envv
}

type c07Engine struct{}

func init() { register(c07Engine{}) }

func (c07Engine) Property() string { return "C07" }
func (c07Engine) Name() string     { return "vmsim/reused-vm-histories" }
func (c07Engine) Level() string    { return "fault_enumeration" }
func (c07Engine) Count(tier string) int {
	if tier == "thorough" {
		return 40000
	}
	return 3000
}
func (c07Engine) Rule() string {
	return "Scenario i from H(VERIF_SEED,'C07',i): a pool of 3-6 programs (cheap / failing inside doubly nested closures by data or call fault / allocating, sized so the history's cumulative allocation crosses the budget repeatedly), 2-3 environment values (one with bad data), 1-3 long-lived vm.VM values and a history of 6-60 ops (vm, program, env, budget, crash instruction or call fault); plus crash-point enumeration: a program crashed at EVERY instruction k of its dynamic trace (hook), each time followed by a probe program on the same VM. One evaluation = one run on the reused VM compared with the same run on a fresh VM (identical fresh world). Non-trivial = an op executed on a VM that had already performed at least one run; distinct = distinct (program, env, budget, fault, crash point, prior-history digest) signatures."
}
func (c07Engine) Assumptions() []string {
	return []string{
		"a fresh vm.VM{} (vm.Run) is the reference: the property is itself a comparison with a fresh VM",
		"vm.MemoryBudget is set by the simulator before each op (the budget is a package variable); no concurrency here",
		"crash = panic injected by the verif hook at an instruction boundary; it stands for any internal failure at that point",
		"sampling of histories; crash points are enumerated exhaustively per (program, probe) pair, capped at 600 instructions",
	}
}
func (c07Engine) Required(tier string) []string {
	return []string{"hook_calls", "ops_on_used_vm", "crash_fired", "grid_crash_points", "budget_exceeded_on_fresh", "call_fault_fired", "failed_in_closure", "cumulative_allocation_over_budget", "ops_fed_previous_result"}
}
func (c07Engine) Decode(raw []byte) (interface{}, error) {
	var sc VMScenario
	err := json.Unmarshal(raw, &sc)
	return &sc, err
}
func (c07Engine) Gen(seed uint64, idx int, tier string) interface{} {
	return genVMScenario(seed, idx, tier, false)
}

func (c07Engine) Run(sci interface{}, ctx *RunCtx) *Finding {
	return runVMHistory(sci.(*VMScenario), ctx, "C07")
}

// runVMHistory executes the history. prop selects the oracle: "C07" compares
// with a fresh VM; "C09" additionally snapshots program and environment around
// every op and re-runs every op on an equal environment.
func runVMHistory(sc *VMScenario, ctx *RunCtx, prop string) *Finding {
	saved := vm.MemoryBudget
	defer func() { vm.MemoryBudget = saved }()
	progs, f := compileAll(sc, ctx, prop)
	if f != nil {
		return f
	}
	machines := make([]*vm.VM, sc.VMs)
	used := make([]int, sc.VMs)
	cumAlloc := make([]int, sc.VMs)
	hist := make([]string, sc.VMs)
	lastOut := make([]interface{}, sc.VMs)  // live result object of the last successful run
	lastCopy := make([]interface{}, sc.VMs) // its deep copy, taken when it was returned
	penv := make([]*Env, sc.VMs)            // the caller's persistent environment object per VM
	penvData := make([]*EnvData, sc.VMs)    // its contents as data
	for i := range machines {
		machines[i] = &vm.VM{}
	}
	// what earlier runs returned (values and errors), with their rendering at the
	// time: it is the caller's from then on and later runs must leave it alone
	type keptResult struct {
		op   int
		val  interface{}
		err  error
		text string
	}
	var keptResults []keptResult
	var progSnap []string
	if prop == "C09" {
		for _, p := range progs {
			if p.prog == nil {
				progSnap = append(progSnap, "")
				continue
			}
			progSnap = append(progSnap, Snapshot(p.prog))
		}
	}

	step := func(opi int, op VMOp, crash int, label string) *Finding {
		cp := progs[op.Prog]
		if cp.prog == nil {
			return nil // a probe this version of the library does not accept
		}
		var envBefore string
		w := NewWorld(sc.Stateful, op.Faults, nil)
		envv := BuildEnv(w, sc.Envs[op.Env]).AsRep(opRep(sc, op))
		persist := op.Persist && sc.Rep != RepStruct // a struct VALUE is copied on every call anyway
		if persist {
			// the caller's long-lived environment object for this VM, changed in place
			if penv[op.VM] == nil {
				penvData[op.VM] = cloneEnvData(sc.Envs[0])
				penv[op.VM] = BuildEnv(w, penvData[op.VM])
			}
			applyMutation(penvData[op.VM], penv[op.VM], op.Mutate)
			penv[op.VM].rebind(w)
			envv = penv[op.VM].AsRep(sc.Rep)
			ctx.Count("ops_on_persistent_env", 1)
		}
		if op.NilEnv {
			envv = (*Env)(nil)
			ctx.Count("ops_on_nil_pointer_env", 1)
		}
		feed := op.Feed && lastOut[op.VM] != nil && !persist && !op.NilEnv
		var freshEnv interface{}
		if feed {
			ctx.Count("ops_fed_previous_result", 1)
			envv = withAny(BuildEnv(w, sc.Envs[op.Env]), opRep(sc, op), lastOut[op.VM])
		}
		if prop == "C09" {
			envBefore = Snapshot(envv)
		}
		// the fresh VM first: its instruction count bounds the run on the VM with a
		// history (a run that never ends there is a violation, not a reason to hang)
		var want Outcome
		var wantJ []CallRec
		if feed {
			wf := NewWorld(sc.Stateful, op.Faults, nil)
			freshEnv = withAny(BuildEnv(wf, sc.Envs[op.Env]), opRep(sc, op), deepCopy(lastCopy[op.VM]))
			vm.MemoryBudget = op.Budget
			beginRun(crash, 0)
			want = sutRun(nil, cp.prog, freshEnv)
			wantJ = wf.Journal
		} else if persist || op.NilEnv {
			wf := NewWorld(sc.Stateful, op.Faults, nil)
			var fe interface{} = (*Env)(nil)
			if persist {
				fe = BuildEnv(wf, penvData[op.VM]).AsRep(sc.Rep) // same contents, newly built
			}
			vm.MemoryBudget = op.Budget
			beginRun(crash, 0)
			want = sutRun(nil, cp.prog, fe)
			wantJ = wf.Journal
		} else {
			want, wantJ, _ = oneRun(sc, nil, cp, op, crash)
		}
		vm.MemoryBudget = op.Budget
		beginRun(crash, 10000+1000*want.Steps)
		got := sutRun(machines[op.VM], cp.prog, envv)
		gotJ := w.Journal
		fired := len(w.Fired)
		if got.Err != nil && contains(got.Err.Error(), "main.LivenessAbort") {
			return &Finding{Class: prop + "/no-progress-on-reused-vm", Detail: fmt.Sprintf("op %d (%s): on the VM with a history the run exceeded %d instructions; on a fresh VM it takes %d\nprogram: %s", opi, label, 10000+1000*want.Steps, want.Steps, cp.src)}
		}
		if got.Err == nil && !got.Panicked {
			lastOut[op.VM] = got.Out
			lastCopy[op.VM] = deepCopy(got.Out)
		}
		for _, k := range keptResults {
			now := ""
			if k.err != nil {
				now = k.err.Error()
			} else {
				now = Canon(k.val)
			}
			if now != k.text {
				return &Finding{Class: prop + "/earlier-result-changed", Detail: fmt.Sprintf("op %d (%s) changed what op %d had returned to its caller\n then: %s\n now:  %s\nprogram: %s", opi, label, k.op, k.text, now, cp.src)}
			}
		}
		if !got.Panicked && (got.Err != nil || !persist) {
			// (a value computed from the caller's persistent environment may alias it,
			// and the caller changes that environment between runs: errors only there)
			k := keptResult{op: opi, val: got.Out, err: got.Err}
			if got.Err != nil {
				k.text = got.Err.Error()
			} else {
				k.text = Canon(got.Out)
			}
			if len(keptResults) >= 4 {
				keptResults = keptResults[1:]
			}
			keptResults = append(keptResults, k)
		}
		ctx.Eval()
		ctx.Logf("op %d %s vm=%d prog=%d env=%d budget=%d crash=%d faults=%v: reused %s | fresh %s", opi, label, op.VM, op.Prog, op.Env, op.Budget, crash, op.Faults, firstLine(got.Key()), firstLine(want.Key()))
		if used[op.VM] > 0 {
			ctx.Count("ops_on_used_vm", 1)
			ctx.Nontrivial(fmt.Sprintf("%s|%v|%d|%d|%v|%s", cp.src, sc.Envs[op.Env], op.Budget, crash, op.Faults, hist[op.VM]))
		}
		used[op.VM]++
		hist[op.VM] = Digest(hist[op.VM] + "|" + cp.src + fmt.Sprint(crash, op.Budget, op.Env))
		if fired > 0 {
			ctx.Count("call_fault_fired", 1)
		}
		if want.Err != nil {
			msg := want.Err.Error()
			switch {
			case contains(msg, "injected crash"): // the harness's own panic value
				ctx.Count("crash_fired", 1)
			case fired == 0:
				// Did the budget stop it? Decided from the reference allocation trace,
				// not from the wording of the library's error.
				if t := sc.Progs[op.Prog].Tree; t != nil {
					wr := NewWorld(sc.Stateful, nil, nil)
					ref := NewRef(BuildEnv(wr, sc.Envs[op.Env]))
					ref.Eval(t)
					sum := 0
					for _, a := range ref.Allocs {
						sum += a
						if sum >= op.Budget {
							ctx.Count("budget_exceeded_on_fresh", 1)
							break
						}
					}
				}
			}
			if scopeDepthAtFailure(machines[op.VM]) > 0 {
				ctx.Count("failed_in_closure", 1)
			}
		} else {
			// successful run: account what it allocated (by the reference) to
			// measure how often the history's cumulative allocation crossed the budget
			wr := NewWorld(sc.Stateful, op.Faults, nil)
			ref := NewRef(BuildEnv(wr, sc.Envs[op.Env]))
			if t := sc.Progs[op.Prog].Tree; t != nil {
				ref.Eval(t)
			}
			for _, a := range ref.Allocs {
				cumAlloc[op.VM] += a
			}
			if cumAlloc[op.VM] >= op.Budget {
				ctx.Count("cumulative_allocation_over_budget", 1)
			}
		}
		if got.Panicked {
			return &Finding{Class: prop + "/panic-escaped", Detail: fmt.Sprintf("op %d: a panic escaped (*VM).Run on the reused VM: %s\nprogram: %s", opi, got.PanicVal, cp.src)}
		}
		if prop == "C07" {
			if got.Key() != want.Key() {
				kind := "result-differs"
				switch {
				case got.Err != nil && want.Err == nil:
					kind = "reused-fails-fresh-succeeds"
					if contains(got.Err.Error(), "memory budget") {
						kind += "/budget"
					}
				case got.Err == nil && want.Err != nil:
					kind = "reused-succeeds-fresh-fails"
				case got.Err != nil && want.Err != nil:
					kind = "error-differs"
				}
				return &Finding{Class: "C07/" + kind, Detail: fmt.Sprintf("op %d (%s) on VM %d after %d earlier runs:\n reused VM: %s\n fresh VM:  %s\nprogram: %s\nenv: %s\nbudget=%d crash=%d faults=%v",
					opi, label, op.VM, used[op.VM]-1, got.Key(), want.Key(), cp.src, sc.Envs[op.Env], op.Budget, crash, op.Faults)}
			}
			if jd := journalDiff(gotJ, wantJ); jd != "" {
				return &Finding{Class: "C07/" + jd, Detail: fmt.Sprintf("op %d: call journal on the reused VM differs from the fresh VM's\n reused: %v\n fresh:  %v\nprogram: %s", opi, journalStrings(gotJ), journalStrings(wantJ), cp.src)}
			}
		}
		if prop == "C09" {
			if got.Key() != want.Key() {
				return &Finding{Class: "C09/run-on-equal-environment-differs", Detail: fmt.Sprintf("op %d (%s): the same program on equal environments returned different results (VM with a history vs fresh VM)\n with history: %s\n fresh:        %s\nprogram: %s", opi, label, got.Key(), want.Key(), cp.src)}
			}
			if after := Snapshot(envv); after != envBefore {
				return &Finding{Class: "C09/environment-modified", Detail: fmt.Sprintf("op %d: running the program changed the environment value\nprogram: %s\n before: %s\n after:  %s", opi, cp.src, envBefore, after)}
			}
			for pi, p := range progs {
				if p.prog == nil {
					continue
				}
				if s := Snapshot(p.prog); s != progSnap[pi] {
					return &Finding{Class: "C09/program-modified", Detail: fmt.Sprintf("op %d (program %d: %s) changed compiled program %d (%s)\n before: %s\n after:  %s", opi, op.Prog, cp.src, pi, p.src, progSnap[pi], s)}
				}
			}
			ctx.Count("snapshots_compared", 1+len(progs))
			// same run on an equal environment (fresh VM, fresh equal world)
			again, againJ := want, wantJ
			if !feed && !persist && !op.NilEnv {
				// ... an environment that is deep-equal but shares pointers differently
				// (O2 aliases O instead of being an equal copy)
				AliasO2 = true
				again, againJ, _ = oneRun(sc, nil, cp, op, crash)
				AliasO2 = false
			}
			ctx.Eval()
			if again.Key() != want.Key() || journalDiff(againJ, wantJ) != "" {
				return &Finding{Class: "C09/rerun-differs", Detail: fmt.Sprintf("op %d: two runs of the same program on equal environments differ\n first:  %s\n second: %s\nprogram: %s", opi, want.Key(), again.Key(), cp.src)}
			}
		}
		return nil
	}

	for opi, op := range sc.Ops {
		if !op.Grid {
			if f := step(opi, op, op.Crash, "run"); f != nil {
				return f
			}
			continue
		}
		// crash-point enumeration: learn the trace length on a scratch VM
		probe := op
		probe.Prog = op.Probe
		probe.Faults = nil
		if progs[op.Prog].prog == nil || progs[op.Probe].prog == nil {
			continue
		}
		scratch, _, _ := oneRun(sc, nil, progs[op.Prog], op, -1)
		n := scratch.Steps
		if n > 600 {
			n = 600
		}
		for k := 0; k < n; k++ {
			ctx.Count("grid_crash_points", 1)
			if f := step(opi, op, k, fmt.Sprintf("grid-crash@%d", k)); f != nil {
				return f
			}
			if f := step(opi, probe, -1, fmt.Sprintf("grid-probe-after@%d", k)); f != nil {
				return f
			}
		}
	}
	if len(ctx.Samples) < ctx.MaxSamp {
		ops := sc.Ops
		if len(ops) > 6 {
			ops = ops[:6]
		}
		var srcs []string
		for _, p := range progs {
			srcs = append(srcs, p.src)
		}
		ctx.Sample(map[string]interface{}{"programs": srcs, "vms": sc.VMs, "first_ops": ops, "total_ops": len(sc.Ops)})
	}
	return nil
}

func scopeDepthAtFailure(m *vm.VM) int {
	if m.Scope() != nil {
		return 1
	}
	return 0
}

func contains(s, sub string) bool {
	return len(sub) <= len(s) && (func() bool {
		for i := 0; i+len(sub) <= len(s); i++ {
			if s[i:i+len(sub)] == sub {
				return true
			}
		}
		return false
	})()
}

func (c07Engine) Shrinks(sci interface{}) []interface{} { return vmShrinks(sci.(*VMScenario)) }

func vmShrinks(sc *VMScenario) []interface{} {
	var out []interface{}
	add := func(f func(c *VMScenario)) {
		c := sc.clone()
		f(c)
		if mustJSONString(c) != mustJSONString(sc) {
			out = append(out, c)
		}
	}
	// drop halves, then single ops
	if n := len(sc.Ops); n > 1 {
		add(func(c *VMScenario) { c.Ops = c.Ops[:n/2] })
		add(func(c *VMScenario) { c.Ops = c.Ops[n/2:] })
		for i := 0; i < n; i++ {
			i := i
			add(func(c *VMScenario) { c.Ops = append(c.Ops[:i:i], c.Ops[i+1:]...) })
		}
	}
	for i, op := range sc.Ops {
		i := i
		if op.Grid {
			add(func(c *VMScenario) { c.Ops[i].Grid = false })
		}
		if op.Crash >= 0 {
			add(func(c *VMScenario) { c.Ops[i].Crash = -1 })
			if op.Crash > 0 {
				add(func(c *VMScenario) { c.Ops[i].Crash = op.Crash / 2 })
			}
		}
		if len(op.Faults) > 0 {
			add(func(c *VMScenario) { c.Ops[i].Faults = nil })
		}
		if op.VM != 0 {
			add(func(c *VMScenario) { c.Ops[i].VM = 0 })
		}
		if op.Feed {
			add(func(c *VMScenario) { c.Ops[i].Feed = false })
		}
		if op.Rep != "" {
			add(func(c *VMScenario) { c.Ops[i].Rep = "" })
		}
		if op.Persist {
			add(func(c *VMScenario) { c.Ops[i].Persist = false; c.Ops[i].Mutate = "" })
		}
		if op.NilEnv {
			add(func(c *VMScenario) { c.Ops[i].NilEnv = false })
		}
		if op.Env != 0 {
			add(func(c *VMScenario) { c.Ops[i].Env = 0 })
		}
		if op.Budget != defaultBudget {
			add(func(c *VMScenario) { c.Ops[i].Budget = defaultBudget })
		}
	}
	// simplify programs
	for pi, p := range sc.Progs {
		pi := pi
		if p.Tree != nil {
			for _, t := range treeShrinks(p.Tree) {
				t := t
				add(func(c *VMScenario) { c.Progs[pi].Tree = t; c.Progs[pi].Source = c.Progs[pi].Src() })
			}
		}
		if !p.Optimize {
			add(func(c *VMScenario) { c.Progs[pi].Optimize = true })
		}
	}
	add(func(c *VMScenario) { c.Rep = RepStruct })
	add(func(c *VMScenario) { c.Stateful = false })
	for ei, e := range sc.Envs {
		ei := ei
		for _, e2 := range envShrinks(e) {
			e2 := e2
			add(func(c *VMScenario) { c.Envs[ei] = e2 })
		}
		if e.M > 8 {
			add(func(c *VMScenario) { c.Envs[ei].M = e.M / 2 })
		}
	}
	return out
}
