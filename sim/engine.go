package main

import (
	"encoding/json"
	"fmt"
	"os"
	"os/exec"
	"path/filepath"
	"sort"
)

// Finding is a property violation observed in one scenario.
type Finding struct {
	// Class is the class key (DESIGN §2.6): property / oracle that fired /
	// structural feature. Shrinking preserves it; known findings are matched
	// on it.
	Class  string `json:"class"`
	Detail string `json:"detail"`
}

// InfraError is raised (by panic) when the harness itself is wrong: a
// generated program the type checker rejects, a hook that never fires, etc.
// It makes the check exit 2: never a violation, never a pass.
type InfraError struct{ Msg string }

func infra(format string, a ...interface{}) {
	panic(InfraError{Msg: fmt.Sprintf(format, a...)})
}

// RunCtx collects what a batch measured.
type RunCtx struct {
	Counters map[string]int
	Evals    int
	Log      []string            // event log of the scenario being run
	Distinct map[string]struct{} // signatures of distinct non-trivial cases
	Samples  []interface{}
	MaxSamp  int
	Quiet    bool // shrinking / replay: do not count
}

func NewRunCtx() *RunCtx {
	return &RunCtx{Counters: map[string]int{}, Distinct: map[string]struct{}{}, MaxSamp: 3}
}

func (c *RunCtx) Count(name string, n int) {
	if !c.Quiet {
		c.Counters[name] += n
	}
}

func (c *RunCtx) Eval() {
	if !c.Quiet {
		c.Evals++
	}
}

func (c *RunCtx) Logf(format string, a ...interface{}) {
	c.Log = append(c.Log, fmt.Sprintf(format, a...))
}

// Nontrivial records the signature of a distinct non-trivial case.
func (c *RunCtx) Nontrivial(sig string) {
	if !c.Quiet {
		c.Distinct[Digest(sig)] = struct{}{}
	}
}

func (c *RunCtx) Sample(v interface{}) {
	if !c.Quiet && len(c.Samples) < c.MaxSamp {
		c.Samples = append(c.Samples, v)
	}
}

func (c *RunCtx) LogDigest() string {
	s := ""
	for _, l := range c.Log {
		s += l + "\n"
	}
	return Digest(s)
}

// Engine is one simulated check.
type Engine interface {
	Property() string
	Name() string
	Level() string // evidence level
	Count(tier string) int
	Gen(seed uint64, idx int, tier string) interface{}
	Run(sc interface{}, ctx *RunCtx) *Finding
	Shrinks(sc interface{}) []interface{}
	Decode(raw []byte) (interface{}, error)
	Rule() string
	Assumptions() []string
	Required(tier string) []string // counters that must be non-zero for the run to count
}

// Optional: extra driver-side work after the batch (multi-process checks).
type PostBatcher interface {
	PostBatch(tier string, seed uint64, ctx *RunCtx) []*Violation
}

var engines = map[string]Engine{}

func register(e Engine) { engines[e.Property()] = e }

func engineList() []string {
	var ks []string
	for k := range engines {
		ks = append(ks, k)
	}
	sort.Strings(ks)
	return ks
}

// Violation is a finding together with what is needed to replay it.
type Violation struct {
	Property  string          `json:"property"`
	Engine    string          `json:"engine"`
	Class     string          `json:"class"`
	Detail    string          `json:"detail"`
	Seed      uint64          `json:"verif_seed"`
	Index     int             `json:"scenario_index"`
	Scenario  json.RawMessage `json:"scenario"`
	Original  json.RawMessage `json:"original_scenario,omitempty"`
	Log       []string        `json:"event_log"`
	LogDigest string          `json:"event_log_digest"`
	ShrinkRun int             `json:"shrink_runs"`
}

func mustJSON(v interface{}) json.RawMessage {
	b, err := json.Marshal(v)
	if err != nil {
		panic(err)
	}
	return b
}

// runGuarded runs one scenario, converting harness errors into a flag.
func runGuarded(e Engine, sc interface{}, ctx *RunCtx) (f *Finding, infraMsg string) {
	defer func() {
		if r := recover(); r != nil {
			if ie, ok := r.(InfraError); ok {
				infraMsg = ie.Msg
				return
			}
			infraMsg = fmt.Sprintf("harness panic: %v", r)
		}
	}()
	ctx.Log = ctx.Log[:0]
	return e.Run(sc, ctx), ""
}

// FreshProcesser is implemented by engines some of whose oracles only work
// once per process (race reports are de-duplicated per process): candidates
// are then re-executed in a fresh process.
type FreshProcesser interface {
	FreshProcess(class string) bool
}

type oneResult struct {
	Class    string         `json:"class"`
	Detail   string         `json:"detail"`
	Log      []string       `json:"log"`
	Infra    string         `json:"infra"`
	Counters map[string]int `json:"counters,omitempty"`
	Distinct []string       `json:"distinct,omitempty"`
	Evals    int            `json:"evals,omitempty"`
	Samples  []interface{}  `json:"samples,omitempty"`
	Hooks    int            `json:"hooks,omitempty"`
}

// ColdStarter is implemented by engines some of whose scenarios must run in a
// process in which the library has not been used yet.
type ColdStarter interface {
	ColdStart(sc interface{}) bool
}

// runFresh executes one scenario in a fresh process of this binary.
func runFresh(e Engine, sc interface{}, ctx *RunCtx) (*Finding, string) {
	dir := filepath.Join(outRoot(), "work")
	os.MkdirAll(dir, 0o755)
	f, err := os.CreateTemp(dir, "scenario-*.json")
	if err != nil {
		return nil, "cannot create scenario file: " + err.Error()
	}
	defer os.Remove(f.Name())
	f.Write(mustJSON(sc))
	f.Close()
	self, _ := os.Executable()
	args := []string{"runone", e.Property(), f.Name()}
	if !ctx.Quiet {
		args = append(args, "count")
	}
	cmd := exec.Command(self, args...)
	cmd.Stderr = os.Stderr
	out, err := cmd.Output()
	var r oneResult
	if jerr := json.Unmarshal(out, &r); jerr != nil {
		return nil, fmt.Sprintf("fresh-process run failed: %v %v: %s", err, jerr, firstLine(string(out)))
	}
	ctx.Log = append(ctx.Log[:0], r.Log...)
	if !ctx.Quiet {
		for k, v := range r.Counters {
			ctx.Counters[k] += v
		}
		for _, d := range r.Distinct {
			ctx.Distinct[d] = struct{}{}
		}
		ctx.Evals += r.Evals
		hookCalls += r.Hooks
		for _, smp := range r.Samples {
			if len(ctx.Samples) < ctx.MaxSamp {
				ctx.Samples = append(ctx.Samples, smp)
			}
		}
	}
	if r.Infra != "" {
		return nil, r.Infra
	}
	if r.Class == "" {
		return nil, ""
	}
	return &Finding{Class: r.Class, Detail: r.Detail}, ""
}

// runOneMain: verifsim runone <prop> <scenario file> — prints a oneResult.
func runOneMain(args []string) int {
	if len(args) < 2 {
		usage()
	}
	e, ok := engines[args[0]]
	if !ok {
		return 2
	}
	raw, err := os.ReadFile(args[1])
	if err != nil {
		return 2
	}
	sc, err := e.Decode(raw)
	if err != nil {
		return 2
	}
	ctx := NewRunCtx()
	ctx.Quiet = len(args) < 3 || args[2] != "count"
	f, im := runGuarded(e, sc, ctx)
	r := oneResult{Log: ctx.Log, Infra: im}
	if f != nil {
		r.Class, r.Detail = f.Class, f.Detail
	}
	if !ctx.Quiet {
		r.Counters, r.Evals, r.Samples, r.Hooks = ctx.Counters, ctx.Evals, ctx.Samples, hookCalls
		for d := range ctx.Distinct {
			r.Distinct = append(r.Distinct, d)
		}
		sort.Strings(r.Distinct)
	}
	os.Stdout.Write(mustJSON(r))
	removeRaceLog()
	return 0
}

// evalCandidate runs a scenario in this process, or in a fresh one when the
// engine asks for that.
func evalCandidate(e Engine, sc interface{}, class string, ctx *RunCtx) (*Finding, string) {
	if fp, ok := e.(FreshProcesser); ok && fp.FreshProcess(class) {
		return runFresh(e, sc, ctx)
	}
	if cs, ok := e.(ColdStarter); ok && cs.ColdStart(sc) {
		return runFresh(e, sc, ctx)
	}
	return runGuarded(e, sc, ctx)
}

// shrink minimises sc greedily while the same class of violation persists.
func shrink(e Engine, sc interface{}, class string, budget int) (interface{}, int) {
	runs := 0
	ctx := NewRunCtx()
	ctx.Quiet = true
	for progress := true; progress && runs < budget; {
		progress = false
		for _, cand := range e.Shrinks(sc) {
			if runs >= budget {
				break
			}
			runs++
			f, im := evalCandidate(e, cand, class, ctx)
			if im == "" && f != nil && f.Class == class {
				sc = cand
				progress = true
				break
			}
		}
	}
	return sc, runs
}
