package main

import (
	"encoding/json"
	"fmt"
	"sort"
)

// Finding is a property violation observed in one scenario.
type Finding struct {
	// Class is the class key (DESIGN §2.6): property / oracle that fired /
	// structural feature. Shrinking preserves it; known findings are matched
	// on it.
	Class  string `json:"class"`
	Detail string `json:"detail"`
}

// InfraError is raised (by panic) when the harness itself is wrong: a
// generated program the type checker rejects, a hook that never fires, etc.
// It makes the check exit 2: never a violation, never a pass.
type InfraError struct{ Msg string }

func infra(format string, a ...interface{}) {
	panic(InfraError{Msg: fmt.Sprintf(format, a...)})
}

// RunCtx collects what a batch measured.
type RunCtx struct {
	Counters map[string]int
	Evals    int
	Log      []string            // event log of the scenario being run
	Distinct map[string]struct{} // signatures of distinct non-trivial cases
	Samples  []interface{}
	MaxSamp  int
	Quiet    bool // shrinking / replay: do not count
}

func NewRunCtx() *RunCtx {
	return &RunCtx{Counters: map[string]int{}, Distinct: map[string]struct{}{}, MaxSamp: 3}
}

func (c *RunCtx) Count(name string, n int) {
	if !c.Quiet {
		c.Counters[name] += n
	}
}

func (c *RunCtx) Eval() {
	if !c.Quiet {
		c.Evals++
	}
}

func (c *RunCtx) Logf(format string, a ...interface{}) {
	c.Log = append(c.Log, fmt.Sprintf(format, a...))
}

// Nontrivial records the signature of a distinct non-trivial case.
func (c *RunCtx) Nontrivial(sig string) {
	if !c.Quiet {
		c.Distinct[Digest(sig)] = struct{}{}
	}
}

func (c *RunCtx) Sample(v interface{}) {
	if !c.Quiet && len(c.Samples) < c.MaxSamp {
		c.Samples = append(c.Samples, v)
	}
}

func (c *RunCtx) LogDigest() string {
	s := ""
	for _, l := range c.Log {
		s += l + "\n"
	}
	return Digest(s)
}

// Engine is one simulated check.
type Engine interface {
	Property() string
	Name() string
	Level() string // evidence level
	Count(tier string) int
	Gen(seed uint64, idx int, tier string) interface{}
	Run(sc interface{}, ctx *RunCtx) *Finding
	Shrinks(sc interface{}) []interface{}
	Decode(raw []byte) (interface{}, error)
	Rule() string
	Assumptions() []string
	Required(tier string) []string // counters that must be non-zero for the run to count
}

// Optional: extra driver-side work after the batch (multi-process checks).
type PostBatcher interface {
	PostBatch(tier string, seed uint64, ctx *RunCtx) []*Violation
}

var engines = map[string]Engine{}

func register(e Engine) { engines[e.Property()] = e }

func engineList() []string {
	var ks []string
	for k := range engines {
		ks = append(ks, k)
	}
	sort.Strings(ks)
	return ks
}

// Violation is a finding together with what is needed to replay it.
type Violation struct {
	Property  string          `json:"property"`
	Engine    string          `json:"engine"`
	Class     string          `json:"class"`
	Detail    string          `json:"detail"`
	Seed      uint64          `json:"verif_seed"`
	Index     int             `json:"scenario_index"`
	Scenario  json.RawMessage `json:"scenario"`
	Original  json.RawMessage `json:"original_scenario,omitempty"`
	Log       []string        `json:"event_log"`
	LogDigest string          `json:"event_log_digest"`
	ShrinkRun int             `json:"shrink_runs"`
}

func mustJSON(v interface{}) json.RawMessage {
	b, err := json.Marshal(v)
	if err != nil {
		panic(err)
	}
	return b
}

// runGuarded runs one scenario, converting harness errors into a flag.
func runGuarded(e Engine, sc interface{}, ctx *RunCtx) (f *Finding, infraMsg string) {
	defer func() {
		if r := recover(); r != nil {
			if ie, ok := r.(InfraError); ok {
				infraMsg = ie.Msg
				return
			}
			infraMsg = fmt.Sprintf("harness panic: %v", r)
		}
	}()
	ctx.Log = ctx.Log[:0]
	return e.Run(sc, ctx), ""
}

// shrink minimises sc greedily while the same class of violation persists.
func shrink(e Engine, sc interface{}, class string, budget int) (interface{}, int) {
	runs := 0
	ctx := NewRunCtx()
	ctx.Quiet = true
	for progress := true; progress && runs < budget; {
		progress = false
		for _, cand := range e.Shrinks(sc) {
			if runs >= budget {
				break
			}
			runs++
			f, im := runGuarded(e, cand, ctx)
			if im == "" && f != nil && f.Class == class {
				sc = cand
				progress = true
				break
			}
		}
	}
	return sc, runs
}
