#!/bin/bash
# Builds the simulator once from files on disk (warms the Go build cache). Offline.
set -eu
cd "$(dirname "$0")"
ROOT=$(pwd)
export GOFLAGS=-mod=mod GOPROXY=off GOSUMDB=off GOTOOLCHAIN=local
cp /repo/go.sum sim/go.sum
(cd sim && go build -tags verif -o "$ROOT/bin/verifsim" . && go build -tags verif -race -o "$ROOT/bin/verifsim-race" .)
echo "setup: ok"
