#!/bin/bash
# run_thorough.sh [seeds...] — every claimed check at the thorough tier, for each seed
# (default "1 2"); a copy of each evidence file is kept under evidence/thorough/.
# The evidence/<id>.json files registered in MANIFEST.json are restored afterwards
# (they are rewritten by whatever tier ran last; the quick tier is what is committed).
cd "$(dirname "$0")"
seeds=${*:-"1 2"}
props=$(python3 -c "import json;print(' '.join(c['property_id'] for c in json.load(open('MANIFEST.json'))['checks']))")
mkdir -p evidence/thorough
tmp=$(mktemp -d); cp evidence/*.json $tmp/ 2>/dev/null
bad=0
for s in $seeds; do for p in $props; do
  out=$(VERIF_SEED=$s ./check $p thorough 2>&1); rc=$?
  echo "seed=$s $p exit=$rc $(echo "$out" | tail -1 | cut -c1-170)"
  [ $rc -ne 0 ] && { bad=1; echo "$out" | grep -v "^  |" | head -40; }
  cp evidence/$p.json evidence/thorough/$p.seed$s.json
done; done
cp $tmp/*.json evidence/ 2>/dev/null; rm -rf $tmp
exit $bad
