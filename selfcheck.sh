#!/bin/bash
# selfcheck.sh [seeds...] — run every claimed quick check under several VERIF_SEED values
# on the unchanged tree; any exit != 0 is printed. Evidence files are restored afterwards
# so that committed evidence always comes from the default seed.
cd "$(dirname "$0")"
seeds=${*:-"2 3 4 5"}
props=$(python3 -c "import json;print(' '.join(c['property_id'] for c in json.load(open('MANIFEST.json'))['checks']))")
tmp=$(mktemp -d); cp evidence/*.json $tmp/ 2>/dev/null
bad=0
for s in $seeds; do for p in $props; do
  out=$(VERIF_SEED=$s ./check $p quick 2>&1); rc=$?
  echo "seed=$s $p exit=$rc $(echo "$out" | tail -1 | cut -c1-150)"
  if [ $rc -ne 0 ]; then bad=1; echo "$out" | grep -v "^  |" | head -30; fi
done; done
cp $tmp/*.json evidence/ 2>/dev/null; rm -rf $tmp
exit $bad
