#!/bin/bash
# selftest.sh [scenarios per property (default 60)] [seeds (default "1 2 3")]
# Determinism self-test (DESIGN §2.8): for every engine, the same VERIF_SEED is
# executed in fresh processes at GOMAXPROCS 1, 4 and 16 (plus one repetition) and
# the per-scenario digests of the generated scenario and of its full event log
# must be identical. Exit 0 = deterministic on everything compared.
cd "$(dirname "$0")"
ROOT=$(pwd)
export GOFLAGS=-mod=mod GOPROXY=off GOSUMDB=off GOTOOLCHAIN=local VERIF_ROOT="$ROOT"
n=${1:-60}; seeds=${2:-"1 2 3"}
mkdir -p work bin
cp /repo/go.sum sim/go.sum
(cd sim && go build -tags verif -o "$ROOT/bin/verifsim" . && go build -tags verif -race -o "$ROOT/bin/verifsim-race" .) || { echo "build failed"; exit 2; }
bad=0; total=0
for prop in C01 C02 C04 C06 C07 C08 C09 C13; do
  bin="$ROOT/bin/verifsim"; [ $prop = C08 ] && bin="$ROOT/bin/verifsim-race"
  for seed in $seeds; do
    ref=""
    for gmp in 1 4 16 16; do
      out=$(GOMAXPROCS=$gmp $bin digest $prop quick $seed 0 $n 2>/dev/null | grep "^$prop ")
      h=$(echo "$out" | sha256sum | cut -c1-16)
      lines=$(echo "$out" | wc -l)
      total=$((total+lines))
      if [ -z "$ref" ]; then ref=$h; refout="$out"; elif [ "$h" != "$ref" ]; then
        bad=1; echo "NONDETERMINISM: $prop seed=$seed GOMAXPROCS=$gmp differs:"; diff <(echo "$refout") <(echo "$out") | head -6
      fi
    done
    echo "$prop seed=$seed: $lines scenarios x 4 processes (GOMAXPROCS 1,4,16,16) digest $ref"
  done
done
echo "selftest: $total scenario executions compared; $( [ $bad = 0 ] && echo deterministic || echo NONDETERMINISTIC )"
exit $bad
